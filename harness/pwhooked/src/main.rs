//! Engine B for C03 / C16: explicit-state reachability of the real PiecewiseEvaluator to a
//! fixpoint, with canonical-state de-duplication on the complete mutable state read through
//! the cfg-guarded accessor `verif_state()` (cargo feature verif-hooks of the subject).
//!
//! A state is stored as the shortest query history reaching it and re-materialised by
//! replaying that history on a fresh evaluator (live evaluators hold borrows and cannot be
//! cloned). A transition calls the real `evaluate` with one query of the order-complete
//! alphabet; the invariant "answer == direct evaluation (bits)" is checked on every transition.
//! Thorough tier: the same graph is re-explored by stateright (independent engine) and the
//! unique-state counts must agree.
//!
//! pwhooked <C03|C16> <quick|thorough> <partfile>   -> writes the part file, exit 0 / 1
//! pwhooked <C03|C16> replay <file>
use piecewise_polynomial::*;
use serde_json::{json, Value};
use std::collections::{HashMap, VecDeque};
use std::sync::atomic::{AtomicUsize, Ordering};
use std::sync::Mutex;
use xplore::*;
static ACCESSOR_INCONSISTENT: std::sync::atomic::AtomicBool = std::sync::atomic::AtomicBool::new(false);

#[derive(Clone, Copy, Debug, PartialEq)]
pub struct Probe(u32);
impl Evaluate for Probe {
    #[inline]
    fn evaluate(&self, x: f64) -> f64 {
        let mix = x.to_bits().wrapping_mul(0x9E37_79B9_7F4A_7C15) >> 12;
        f64::from_bits(((0x400 + self.0 as u64) << 52) | (mix & ((1u64 << 52) - 1)))
    }
}
fn probe_pw(ends: &[f64]) -> Piecewise<Probe> {
    Piecewise { segments: ends.iter().enumerate().map(|(i, &e)| Segment { end: e, poly: Probe(i as u32) }).collect() }
}

/// State identity: the accessor triple (offset, ahead, last argument) AND every word of the evaluator object itself, so that
/// state the accessor does not know about (a counter or flag added to the struct) still separates states. Words that point
/// into the segment array are replaced by their offset (address independence).
type Key = (usize, usize, u64, Vec<u64>);

fn key_of(ev: &PiecewiseEvaluator<Probe>, pw: &Piecewise<Probe>, mask: &[u64]) -> Key {
    let (a, b, c) = ev.verif_state();
    let n = std::mem::size_of_val(ev);
    let p = ev as *const PiecewiseEvaluator<Probe> as *const u8;
    let lo = pw.segments.as_ptr() as u64;
    let hi = lo + (pw.segments.len() * std::mem::size_of::<Segment<Probe>>()) as u64;
    let mut words = Vec::with_capacity(n / 8 + 1);
    let mut i = 0;
    while i < n {
        let m = (n - i).min(8);
        let mut w = [0u8; 8];
        // (the object is a plain struct of references, floats and integers; padding bytes, if a changed layout has any, hold
        // whatever was there before - the replay check in explore_shape finds such bits and masks them)
        unsafe { std::ptr::copy_nonoverlapping(p.add(i), w.as_mut_ptr(), m) };
        let v = u64::from_le_bytes(w);
        let v = if v >= lo && v <= hi && lo != 0 { 0xA5A5_0000_0000_0000 | (v - lo) } else { v };
        // bits that are not a function of the history (padding) are masked out; the mask is learnt per shape, see explore_shape
        words.push(v & !mask.get(i / 8).cloned().unwrap_or(0));
        i += 8;
    }
    (a, b, c, words)
}

struct ShapeResult {
    states: u64,
    transitions: u64,
    nontrivial: u64, // transitions that move the cursor backwards or land exactly on an end
    max_hist: usize,
    violation: Option<Value>,
    keys: Vec<Key>,
    sample: Option<Value>,
    /// number of distinct accessor triples among the states (smaller than `states` = the object holds state the accessor does not show)
    hook_states: u64,
    /// bits of the object found not to be a function of the history (padding) and left out of the identity
    masked_bits: u64,
    aborted: bool,
}

fn materialise<'a>(pw: &'a Piecewise<Probe>, alpha: &[f64], hist: &[u16]) -> PiecewiseEvaluator<'a, Probe> {
    let mut ev = PiecewiseEvaluator::new(&pw.segments);
    for &i in hist {
        ev.evaluate(alpha[i as usize]);
    }
    ev
}

/// Padding bits of the evaluator object, found once: the same histories are materialised into memory pre-filled with 0x00 and
/// with 0xff (the destination slot and the stack below the caller); object bits that differ were never written by the library.
fn padding_mask() -> &'static Vec<u64> {
    static M: std::sync::OnceLock<Vec<u64>> = std::sync::OnceLock::new();
    M.get_or_init(|| {
        #[inline(never)]
        fn poison(p: u8) -> u64 {
            let mut a = [p; 32768];
            std::hint::black_box(&mut a);
            a[17] as u64
        }
        #[inline(never)]
        fn words_of(pw: &Piecewise<Probe>, hist: &[f64], p: u8) -> Vec<u64> {
            let mut slot = std::mem::MaybeUninit::<PiecewiseEvaluator<Probe>>::uninit();
            unsafe { std::ptr::write_bytes(slot.as_mut_ptr() as *mut u8, p, std::mem::size_of::<PiecewiseEvaluator<Probe>>()) };
            std::hint::black_box(poison(p));
            let ev = slot.write(PiecewiseEvaluator::new(&pw.segments));
            for &x in hist {
                std::hint::black_box(poison(p));
                ev.evaluate(x);
            }
            key_of(ev, pw, &[]).3
        }
        let pw = probe_pw(&[1.0, 2.0, 3.0, 4.0, 5.0]);
        let mut mask = vec![0u64; std::mem::size_of::<PiecewiseEvaluator<Probe>>().div_ceil(8)];
        for hist in [&[][..], &[0.5], &[4.5, 0.5], &[2.5, 2.5, 7.0], &[7.0, 3.0, 1.0, f64::NAN]] {
            let a = words_of(&pw, hist, 0x00);
            let b = words_of(&pw, hist, 0xff);
            for (m, (x, y)) in mask.iter_mut().zip(a.iter().zip(&b)) {
                *m |= x ^ y;
            }
        }
        mask
    })
}

fn explore_shape(ends: &[f64], with_nan: bool, abort: &dyn Fn() -> bool) -> ShapeResult {
    // bits of the object that two materialisations of the same history do not agree on are padding: learn them and start over
    let mut mask: Vec<u64> = padding_mask().clone();
    loop {
        match explore_shape_masked(ends, with_nan, &mask, abort) {
            Ok(mut r) => {
                r.masked_bits = mask.iter().map(|w| w.count_ones() as u64).sum();
                return r;
            }
            Err(more) => {
                if mask.len() < more.len() {
                    mask.resize(more.len(), 0);
                }
                let before: u64 = mask.iter().map(|w| w.count_ones() as u64).sum();
                for (m, x) in mask.iter_mut().zip(&more) {
                    *m |= x;
                }
                if mask.iter().map(|w| w.count_ones() as u64).sum::<u64>() == before {
                    machinery("engine B: a replay mismatch did not enlarge the padding mask");
                }
            }
        }
    }
}

fn explore_shape_masked(ends: &[f64], with_nan: bool, mask: &[u64], abort: &dyn Fn() -> bool) -> Result<ShapeResult, Vec<u64>> {
    let pw = probe_pw(ends);
    let mut alpha = order_alphabet(ends);
    if with_nan {
        alpha.extend(nans());
    }
    let mut r = ShapeResult { states: 0, transitions: 0, nontrivial: 0, max_hist: 0, violation: None, keys: vec![], sample: None, hook_states: 0, masked_bits: 0, aborted: false };
    let pre = guard(|| {
        let direct: Vec<f64> = alpha.iter().map(|&x| pw.evaluate(x)).collect();
        let fresh: Vec<f64> = alpha.iter().map(|&x| PiecewiseEvaluator::new(&pw.segments).evaluate(x)).collect();
        (direct, fresh)
    });
    let (direct, fresh) = match pre {
        Ok(t) => t,
        Err(p) => {
            r.violation = Some(json!({"what": format!("evaluation of a non-empty function panicked: {p}"), "engine": "B (reachable-state fixpoint)", "ends": fjs(ends), "history": fjs(&alpha), "with_nan": with_nan}));
            return Ok(r);
        }
    };
    let mut seen: HashMap<Key, Vec<u16>> = HashMap::new();
    let mut queue: VecDeque<Key> = VecDeque::new();
    let k0 = key_of(&PiecewiseEvaluator::new(&pw.segments), &pw, mask);
    seen.insert(k0.clone(), vec![]);
    queue.push_back(k0);
    while let Some(k) = queue.pop_front() {
        if abort() {
            // a shape earlier in the list already violates: this result would not be reported
            r.aborted = true;
            return Ok(r);
        }
        let hist = seen[&k].clone();
        r.max_hist = r.max_hist.max(hist.len());
        for (qi, &x) in alpha.iter().enumerate() {
            let out = guard(|| {
                let mut ev = materialise(&pw, &alpha, &hist);
                // replay must reproduce the stored canonical state (determinism check)
                let again = key_of(&ev, &pw, mask);
                let y = ev.evaluate(x);
                (again, y, key_of(&ev, &pw, mask))
            });
            r.transitions += 1;
            let mk = |what: &str, got: Value| {
                let mut h: Vec<f64> = hist.iter().map(|&i| alpha[i as usize]).collect();
                h.push(x);
                json!({"what": what, "engine": "B (reachable-state fixpoint)", "ends": fjs(ends), "state": {"offset": k.0, "ahead": k.1, "last_argument": fj(f64::from_bits(k.2))},
                       "history": fjs(&h), "history_indices": hist, "query_index": qi, "with_nan": with_nan, "direct_evaluation": fj(direct[qi]), "got": got})
            };
            let (again, y, nk) = match out {
                Err(p) => {
                    r.violation = Some(mk(&format!("PiecewiseEvaluator::evaluate panicked: {p}"), json!(p)));
                    return Ok(r);
                }
                Ok(t) => t,
            };
            if again != k {
                if (again.0, again.1, again.2) == (k.0, k.1, k.2) && again.3.len() == k.3.len() {
                    // the accessor state is reproduced, some object bits are not: they are not a function of the history
                    return Err(again.3.iter().zip(&k.3).map(|(a, b)| a ^ b).collect());
                }
                machinery(&format!("engine B: replaying a stored history did not reproduce its canonical state: {again:?} vs {k:?}"));
            }
            if nk.0 + nk.1 != pw.segments.len() - 1 {
                // the accessor no longer describes the slice the evaluator was given: exploration goes on (a wrong answer found
                // this way is still a concrete replayable history), but a run without a violation cannot be called a fixpoint
                ACCESSOR_INCONSISTENT.store(true, std::sync::atomic::Ordering::Relaxed);
            }
            if !x.is_nan() {
                if y.to_bits() != direct[qi].to_bits() {
                    r.violation = Some(mk("PiecewiseEvaluator answer differs from direct evaluation of the same argument", fj(y)));
                    return Ok(r);
                }
                if y.to_bits() != fresh[qi].to_bits() {
                    r.violation = Some(mk("the answer depends on earlier queries: a fresh evaluator answers differently", fj(y)));
                    return Ok(r);
                }
                if nk.0 < k.0 || ends.iter().any(|&e| e == x) {
                    r.nontrivial += 1;
                }
            }
            if !seen.contains_key(&nk) {
                let mut h = hist.clone();
                h.push(qi as u16);
                if r.sample.is_none() && nk.0 >= 1 {
                    r.sample = Some(json!({"ends": fjs(ends), "history_reaching_state": fjs(&h.iter().map(|&i| alpha[i as usize]).collect::<Vec<_>>()),
                        "state": {"offset": nk.0, "ahead": nk.1, "last_argument": fj(f64::from_bits(nk.2))}}));
                }
                seen.insert(nk.clone(), h);
                queue.push_back(nk);
            }
        }
    }
    r.states = seen.len() as u64;
    r.keys = seen.keys().cloned().collect();
    r.hook_states = seen.keys().map(|k| (k.0, k.1, k.2)).collect::<std::collections::HashSet<_>>().len() as u64;
    // closure check: every state reached by *any* history of depth <= 3 must be in the fixpoint
    let n = alpha.len();
    let mut cnt = 0u64;
    let keyset: std::collections::HashSet<Key> = r.keys.iter().cloned().collect();
    let d3 = if n <= 24 { 3 } else { 2 };
    let mut idx = vec![0usize; d3];
    'outer: loop {
        let mut ev = PiecewiseEvaluator::new(&pw.segments);
        for (pos, &i) in idx.iter().enumerate() {
            ev.evaluate(alpha[i]);
            let k1 = key_of(&ev, &pw, mask);
            if !keyset.contains(&k1) {
                // the same history materialised the way the search does it: object bits that differ between the two are not a
                // function of the history (padding that the poisoning did not reveal) - mask them and start the shape over
                let hist: Vec<u16> = idx[..=pos].iter().map(|&j| j as u16).collect();
                let k2 = key_of(&materialise(&pw, &alpha, &hist), &pw, mask);
                if k1 != k2 && (k1.0, k1.1, k1.2) == (k2.0, k2.1, k2.2) && k1.3.len() == k2.3.len() {
                    return Err(k1.3.iter().zip(&k2.3).map(|(a, b)| a ^ b).collect());
                }
                machinery("engine B: a state reached by a bounded history is missing from the fixpoint (search not closed)");
            }
        }
        cnt += 1;
        let mut p = d3;
        loop {
            if p == 0 {
                break 'outer;
            }
            p -= 1;
            idx[p] += 1;
            if idx[p] < n {
                break;
            }
            idx[p] = 0;
        }
    }
    let _ = cnt;
    Ok(r)
}

// ------------------------------------------------------------------ stateright cross-check
mod sr {
    use super::*;
    use stateright::{Checker, Model, Property};
    use std::hash::{Hash, Hasher};

    #[derive(Clone, Debug)]
    pub struct St {
        pub key: Key,
        pub ok: bool,
        pub hist: Vec<u16>, // representative history (not part of identity)
    }
    impl Hash for St {
        fn hash<H: Hasher>(&self, h: &mut H) {
            self.key.hash(h);
            self.ok.hash(h);
        }
    }
    impl PartialEq for St {
        fn eq(&self, o: &Self) -> bool {
            self.key == o.key && self.ok == o.ok
        }
    }
    impl Eq for St {}

    pub struct M {
        pub pw: Piecewise<Probe>,
        pub alpha: Vec<f64>,
        pub direct: Vec<f64>,
        pub mask: Vec<u64>,
    }
    impl Model for M {
        type State = St;
        type Action = u16;
        fn init_states(&self) -> Vec<St> {
            vec![St { key: key_of(&PiecewiseEvaluator::new(&self.pw.segments), &self.pw, &self.mask), ok: true, hist: vec![] }]
        }
        fn actions(&self, s: &St, out: &mut Vec<u16>) {
            if s.ok {
                out.extend(0..self.alpha.len() as u16);
            }
        }
        fn next_state(&self, s: &St, a: u16) -> Option<St> {
            let mut ev = materialise(&self.pw, &self.alpha, &s.hist);
            let x = self.alpha[a as usize];
            let y = ev.evaluate(x);
            let ok = x.is_nan() || y.to_bits() == self.direct[a as usize].to_bits();
            let mut hist = s.hist.clone();
            hist.push(a);
            Some(St { key: key_of(&ev, &self.pw, &self.mask), ok, hist })
        }
        fn properties(&self) -> Vec<Property<Self>> {
            vec![Property::always("answer equals direct evaluation", |_m: &M, s: &St| s.ok)]
        }
    }
    /// returns (unique states, violated?)
    pub fn run(ends: &[f64], with_nan: bool) -> (usize, bool) {
        let pw = probe_pw(ends);
        let mut alpha = order_alphabet(ends);
        if with_nan {
            alpha.extend(nans());
        }
        let direct = alpha.iter().map(|&x| pw.evaluate(x)).collect();
        let m = M { pw, alpha, direct, mask: vec![!0u64; 64] };
        let c = m.checker().threads(1).spawn_bfs().join();
        (c.unique_state_count(), c.discovery("answer equals direct evaluation").is_some())
    }
}

fn shape_list(thorough: bool) -> Vec<Vec<f64>> {
    let mut v = if thorough {
        shapes(&[1.0, 2.0, 3.0, 4.0, 5.0, 6.0, 7.0, 8.0], 8)
    } else {
        shapes(&[1.0, 2.0, 3.0, 4.0, 5.0, 6.0], 6)
    };
    v.extend(shapes(&nasty_values(), if thorough { 4 } else { 3 }));
    // big functions around size thresholds
    v.extend(big_shapes(thorough, if thorough { 1025 } else { 257 }));
    v
}

fn main() {
    let args: Vec<String> = std::env::args().collect();
    if args.len() < 4 {
        eprintln!("usage: pwhooked <C03|C16> <quick|thorough> <partfile> | pwhooked <ID> replay <file>");
        std::process::exit(2);
    }
    silence_panics();
    let with_nan = args[1] == "C16";
    if args[2] == "replay" {
        let v: Value = serde_json::from_str(&std::fs::read_to_string(&args[3]).unwrap_or_else(|e| machinery(&format!("{e}")))).unwrap_or_else(|e| machinery(&format!("{e}")));
        let d = &v["detail"];
        let parse = |s: &Value| -> f64 {
            let t = s.as_str().unwrap_or("");
            let hex = t.rsplit("/0x").next().unwrap_or("0");
            f64::from_bits(u64::from_str_radix(hex, 16).unwrap_or(0))
        };
        let ends: Vec<f64> = d["ends"].as_array().map(|a| a.iter().map(parse).collect()).unwrap_or_default();
        let hist: Vec<f64> = d["history"].as_array().map(|a| a.iter().map(parse).collect()).unwrap_or_default();
        if ends.is_empty() || hist.is_empty() {
            machinery("replay file has no ends/history");
        }
        let pw = probe_pw(&ends);
        // true = the history violates (wrong answer to a non-NaN query, or a panic anywhere)
        let run = || {
            let mut ev = PiecewiseEvaluator::new(&pw.segments);
            let mut bad = false;
            for &x in &hist {
                let y = ev.evaluate(x);
                let d = pw.evaluate(x);
                if !x.is_nan() && y.to_bits() != d.to_bits() {
                    bad = true;
                }
            }
            bad
        };
        let (a, b) = (guard(run), guard(run));
        if a != b {
            machinery("replay: two runs differ");
        }
        let bad = a.unwrap_or(true);
        if bad {
            println!("replay: history {:?} on ends {:?} still violates", hist, ends);
            println!("VIOLATION property={} replay={}", args[1], args[3]);
            std::process::exit(1);
        }
        println!("replay: property held on this history");
        std::process::exit(0);
    }
    let thorough = args[2] == "thorough";
    let t0 = std::time::Instant::now();
    let sl = shape_list(thorough);
    let hidden = AtomicUsize::new(0);
    let masked = AtomicUsize::new(0);
    let min_bad = AtomicUsize::new(usize::MAX);
    let mut round = 0;
    let (states, transitions, nontrivial, max_hist, violation, mut samples, per_shape) = loop {
    round += 1;
    hidden.store(0, Ordering::SeqCst);
    let next = AtomicUsize::new(0);
    let agg = Mutex::new((0u64, 0u64, 0u64, 0usize, None::<(usize, Value)>, Vec::<Value>::new(), Vec::<(usize, usize)>::new()));
    std::thread::scope(|s| {
        for _ in 0..16 {
            s.spawn(|| loop {
                let i = next.fetch_add(1, Ordering::SeqCst);
                if i >= sl.len() {
                    break;
                }
                if i > min_bad.load(Ordering::SeqCst) {
                    continue;
                }
                let r = explore_shape(&sl[i], with_nan, &|| i > min_bad.load(Ordering::SeqCst));
                if r.aborted {
                    continue;
                }
                if r.violation.is_some() {
                    min_bad.fetch_min(i, Ordering::SeqCst);
                }
                masked.fetch_max(r.masked_bits as usize, Ordering::SeqCst);
                if r.hook_states < r.states {
                    hidden.fetch_add(1, Ordering::SeqCst);
                }
                let mut g = agg.lock().unwrap();
                g.0 += r.states;
                g.1 += r.transitions;
                g.2 += r.nontrivial;
                g.3 = g.3.max(r.max_hist);
                if let Some(v) = r.violation {
                    if g.4.as_ref().map_or(true, |(j, _)| i < *j) {
                        g.4 = Some((i, v));
                    }
                }
                if let Some(sv) = r.sample {
                    if g.5.len() < 3 && (i % 97 == 5 || i + 1 == sl.len()) {
                        g.5.push(sv);
                    }
                }
                g.6.push((i, r.hook_states as usize)); // (the stateright cross-check identifies states by the accessor triple)
            });
        }
    });
    let _ = round;
    break agg.into_inner().unwrap();
    };
    if samples.is_empty() {
        samples.push(json!({"ends": fjs(&sl[0]), "note": "single-state shape"}));
    }
    if violation.is_none() && ACCESSOR_INCONSISTENT.load(std::sync::atomic::Ordering::Relaxed) {
        machinery("engine B: accessor returned an inconsistent state (offset + ahead != front length) and no wrong answer was found");
    }
    // stateright cross-check
    let mut sr_json = json!({"run": false, "reason": "thorough tier only"});
    if violation.is_none() {
        let pick: Vec<usize> = if thorough { (0..sl.len()).filter(|i| sl[*i].len() <= 6).collect() } else { (0..sl.len()).filter(|i| sl[*i].len() <= 3).collect() };
        let cnt: HashMap<usize, usize> = per_shape.iter().cloned().collect();
        let next = AtomicUsize::new(0);
        let bad = Mutex::new(None::<String>);
        let tot = AtomicUsize::new(0);
        std::thread::scope(|s| {
            for _ in 0..16 {
                s.spawn(|| loop {
                    let j = next.fetch_add(1, Ordering::SeqCst);
                    if j >= pick.len() {
                        break;
                    }
                    let i = pick[j];
                    let (n, viol) = sr::run(&sl[i], with_nan);
                    tot.fetch_add(n, Ordering::SeqCst);
                    if viol || n != cnt[&i] {
                        *bad.lock().unwrap() = Some(format!("shape {:?}: stateright unique states {} (violation {}) vs engine B {}", sl[i], n, viol, cnt[&i]));
                    }
                });
            }
        });
        if let Some(b) = bad.into_inner().unwrap() {
            machinery(&format!("engine B and stateright disagree: {b}"));
        }
        sr_json = json!({"run": true, "shapes_cross_checked": pick.len(), "unique_states_total": tot.load(Ordering::SeqCst), "agrees_with_engine_B": true,
                         "engine": "stateright 0.31 BFS over the same real transition function, state identity = accessor key"});
    }
    let part = json!({
        "engine": "explicit-state BFS to a fixpoint over the real PiecewiseEvaluator (state = verif_state() triple plus every word of the evaluator object, re-materialised by replaying the shortest history)",
        "state_identity": "accessor triple + object words (pointers into the segment array as offsets; bits that two replays of one history disagree on - padding - masked)",
        "object_bits_masked_as_padding": masked.load(Ordering::SeqCst),
        "shapes_with_state_the_accessor_does_not_show": hidden.load(Ordering::SeqCst),
        "states": states, "transitions": transitions, "traces_validated_against_impl": transitions, "evaluations": transitions,
        "distinct_nontrivial": nontrivial,
        "nontrivial_rule": "transition that moves the cursor backwards or whose query equals an end",
        "shapes": sl.len(), "longest_shortest_history": max_hist, "exhaustive": violation.is_none(),
        "bounds": if thorough {"all end lists of length 1..8 over {1..8}, 1..4 over the nasty value set, and 1..n for the threshold sizes up to 1025; histories of every length over A(ends)"} else {"all end lists of length 1..6 over {1..6}, 1..3 over the nasty value set, and 1..n for the threshold sizes up to 257; histories of every length over A(ends)"},
        "with_nan_queries": with_nan,
        "closure_check": "every state reached by any history of depth <= 3 (2 for large alphabets) is in the fixpoint",
        "stateright_cross_check": sr_json,
        "samples": samples,
        "violation": violation.as_ref().map(|v| v.1.clone()),
        "wall_s": t0.elapsed().as_secs_f64(),
    });
    std::fs::write(&args[3], serde_json::to_string_pretty(&part).unwrap()).unwrap_or_else(|e| machinery(&format!("cannot write part file: {e}")));
    println!("{} engine B: shapes={} states={} transitions={} longest_shortest_history={} wall={:.1}s violation={}", args[1], sl.len(), states, transitions, max_hist, t0.elapsed().as_secs_f64(), violation.is_some());
    std::process::exit(if violation.is_some() { 1 } else { 0 });
}
