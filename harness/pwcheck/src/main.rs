//! pwcheck <ID> <quick|thorough>            run the check, write /verif/evidence/<ID>.json
//! pwcheck <ID> replay <file>               re-run one recorded execution (twice)
//! exit 0 = held on everything explored, 1 = VIOLATION, 2 = machinery failure
#[macro_use]
mod common;
mod ambient;
mod c01;
mod c02;
mod c03;
mod c04;
mod c05;
mod spline;
mod c06;
mod c07;
mod c08;
mod c09;
mod c10;
mod c11;
mod c12;
mod c13;
mod c14;
mod c15;
mod c17;
mod c18;
mod c19;
mod census;

use xplore::*;

fn build(id: &str, thorough: bool, seed: u64) -> Option<Check> {
    Some(match id {
        "C01" => c01::check(thorough, seed),
        "C02" => c02::check(thorough, seed),
        "C03" => c03::check_c03(thorough, seed),
        "C16" => c03::check_c16(thorough, seed),
        "C04" => c04::check(thorough, seed),
        "C05" => c05::check(thorough, seed),
        "C06" => c06::check(thorough, seed),
        "C07" => c07::check(thorough, seed),
        "C08" => c08::check(thorough, seed),
        "C09" => c09::check(thorough, seed),
        "C10" => c10::check(thorough, seed),
        "C11" => c11::check(thorough, seed),
        "C12" => c12::check(thorough, seed),
        "C13" => c13::check(thorough, seed),
        "C14" => c14::check(thorough, seed),
        "C15" => c15::check(thorough, seed),
        "C17" => c17::check(thorough, seed),
        "C18" => c18::check(thorough, seed),
        "C19" => c19::check(thorough, seed),
        _ => return None,
    })
}

fn main() {
    let args: Vec<String> = std::env::args().collect();
    if args.len() < 3 {
        eprintln!("usage: pwcheck <ID> <quick|thorough|replay <file>>");
        std::process::exit(2);
    }
    if std::env::var("PW_SHOW_PANICS").is_err() {
        silence_panics();
    }
    if let Err(e) = exact::self_test() {
        machinery(&format!("exact arithmetic self-test failed: {e}"));
    }
    set_ambient(ambient::alphabet());
    let id = args[1].as_str();
    let seed: u64 = std::env::var("VERIF_SEED").ok().and_then(|s| s.parse().ok()).unwrap_or(0);
    let r = std::panic::catch_unwind(|| match args[2].as_str() {
        "quick" | "thorough" => {
            let thorough = args[2] == "thorough";
            let Some(chk) = build(id, thorough, seed) else { machinery(&format!("unknown property {id}")) };
            // external engine result (engine B of C03/C16, borsh part of C18) handed over by bin/check
            let ext = std::env::var("PW_EXTERNAL_VIOLATION").ok().filter(|s| !s.is_empty()).map(|s| {
                let v: serde_json::Value = serde_json::from_str(&s).unwrap_or(serde_json::json!({"raw": s}));
                (v["what"].as_str().unwrap_or("external engine violation").to_string(), v)
            });
            run_check(chk, thorough, seed, ext)
        }
        "item" => {
            // pwcheck <ID> item <quick|thorough> <phase> <item index> <crumb file>   (crash localisation, driven by bin/check)
            let thorough = args.get(3).map(|s| s == "thorough").unwrap_or(false);
            let Some(chk) = build(id, thorough, seed) else { machinery(&format!("unknown property {id}")) };
            let phase = args.get(4).cloned().unwrap_or_default();
            let item: usize = args.get(5).and_then(|s| s.parse().ok()).unwrap_or_else(|| machinery("item index"));
            let crumb = args.get(6).cloned().unwrap_or_else(|| machinery("crumb file"));
            let Some(ph) = chk.phases.iter().find(|p| p.name == phase) else { machinery("unknown phase") };
            run_item(ph, thorough, seed, item, &crumb)
        }
        "replay" => {
            let file = args.get(3).unwrap_or_else(|| machinery("replay needs a file"));
            let s = std::fs::read_to_string(file).unwrap_or_else(|e| machinery(&format!("replay file: {e}")));
            let v: serde_json::Value = serde_json::from_str(&s).unwrap_or_else(|e| machinery(&format!("replay file: {e}")));
            let thorough = v["tier"].as_str() == Some("thorough");
            let Some(chk) = build(id, thorough, v["seed"].as_u64().unwrap_or(0)) else { machinery(&format!("unknown property {id}")) };
            replay(&chk, file)
        }
        other => machinery(&format!("unknown mode {other}")),
    });
    match r {
        Ok(code) => std::process::exit(code),
        Err(e) => {
            let msg = e.downcast_ref::<String>().cloned().or_else(|| e.downcast_ref::<&str>().map(|s| s.to_string())).unwrap_or_default();
            machinery(&format!("harness/oracle panic: {msg}"));
        }
    }
}
