//! C11 — piecewise integration is continuous at breakpoints and is the true integral.
use crate::c09::{big_g, exact_q};
use crate::c14::ValueLevel;
use crate::common::*;
use exact::{dy, Dy};
use serde_json::{json, Value};
use std::cell::Cell;
use std::rc::Rc;
use std::sync::Arc;
use xplore::*;

/// exact definite integral of one source piece over [a,b], every component multiplied by 840 = lcm(1..8) so that it is a
/// dyadic number (sums over hundreds of pieces stay cheap): (840*value, 840*majorant of the terms, 840*extra absolute tolerance for ln)
trait Piece: Nums + Copy + HasIntegral + PartialEq + Send + Sync + 'static
where
    Self::IntegralOf: Nums + ValueLevel + Translate + Copy + PartialEq,
{
    const LOG: bool;
    fn def_int(c: &[f64], a: f64, b: f64) -> (Dy, Dy, Dy);
    /// structural antiderivative check of a result piece against its source piece
    fn anti(src: &[f64], res: &[f64]) -> Result<(), String>;
}
macro_rules! piece_poly { ($($t:ident),*) => {$(
    impl Piece for $t {
        const LOG: bool = false;
        fn def_int(c: &[f64], a: f64, b: f64) -> (Dy, Dy, Dy) {
            let (qa, qb) = (dy(a), dy(b));
            let (mut pa, mut pb) = (qa.clone(), qb.clone());
            let (mut s, mut m) = (Dy::zero(), Dy::zero());
            for i in 0..c.len() {
                let ci = dy(c[i]).mul_i(840 / (i as i64 + 1));
                s = s.add(&ci.mul(&pb.sub(&pa)));
                m = m.add(&ci.abs().mul(&pb.abs().add(&pa.abs())));
                pa = pa.mul(&qa);
                pb = pb.mul(&qb);
            }
            (s, m, Dy::zero())
        }
        fn anti(src: &[f64], res: &[f64]) -> Result<(), String> {
            // d/dx of the result piece is the source piece, coefficient-wise within one ulp
            for i in 0..src.len() {
                let d = dy(res[i + 1]).mul_i(i as i64 + 1);
                if !d.sub(&dy(src[i])).abs().le(&dy(exact::ulp(src[i]))) {
                    return Err(format!("{}*C_{} = {:e} is not the source coefficient c_{} = {:e} within one ulp", i + 1, i + 1, d.to_f64(), i, src[i]));
                }
            }
            Ok(())
        }
    }
)*}; }
piece_poly!(Poly0, Poly1, Poly2, Poly3, Poly4, Poly5, Poly6, Poly7);
macro_rules! piece_log { ($($t:ident),*) => {$(
    impl Piece for Log<$t> {
        const LOG: bool = true;
        fn def_int(c: &[f64], a: f64, b: f64) -> (Dy, Dy, Dy) {
            let (qq, m) = exact_q(c);
            let (ga, ma, sa) = big_g(&qq, &m, a);
            let (gb, mb, sb) = big_g(&qq, &m, b);
            (gb.sub(&ga).mul_i(840), ma.add(&mb).mul_i(840), sa.add(&sb).mul_i(840))
        }
        fn anti(src: &[f64], res: &[f64]) -> Result<(), String> {
            let n = src.len();
            if n == 5 {
                return Ok(()); // quartic special form: decided by the definite-integral comparison
            }
            let (_, m) = exact_q(src);
            for i in 0..n {
                let qi = dy(res[1 + i]);
                let lhs = if i + 1 < n { qi.add(&dy(res[2 + i]).mul_i(i as i64 + 1)) } else { qi };
                if !lhs.sub(&dy(src[i])).abs().le(&m[i].mul_pow2(-49)) {
                    return Err(format!("returned coefficients violate q_{i} + {}*q_{} = p_{i}", i + 1, i + 1));
                }
            }
            Ok(())
        }
    }
)*}; }
piece_log!(Poly0, Poly1, Poly2, Poly3, Poly4, Poly5, Poly6, Poly7, Poly8);

const VEC_A: [f64; 9] = [1.0; 9];
const VEC_B: [f64; 9] = [1.0, -0.75, 0.5, -0.25, 1.25, -1.5, 0.375, -0.625, 2.0];
const VEC_C: [f64; 9] = [1.5, -2.25, 3.125, -4.0625, 5.5, -6.75, 7.875, -8.9375, 9.96875];

fn tiny() -> Dy {
    Dy::pow2(-40)
}

fn run<T>(ends: &[f64], cx: &mut Cx, ks: usize) -> Verdict
where
    T: Piece,
    T::IntegralOf: Nums + ValueLevel + Translate + Copy + PartialEq,
{
    run_with::<T>(ends, cx, ks, None, None)
}

/// `over`: the pieces' coefficient vectors given by the caller instead of chosen here
fn run_with<T>(ends: &[f64], cx: &mut Cx, ks: usize, over: Option<&[Vec<f64>]>, kx_over: Option<f64>) -> Verdict
where
    T: Piece,
    T::IntegralOf: Nums + ValueLevel + Translate + Copy + PartialEq,
{
    let n = ends.len();
    // per-piece coefficient choice (3 vectors for 1-2 pieces, 2 beyond)
    let mut srcs: Vec<Vec<f64>> = vec![];
    // power-of-two scale of all coefficients and of k0.y (scale invariance; only for short functions to bound the cost)
    let sc = if n <= 2 { [1.0, 8.673617379884035e-19, 1099511627776.0][cx.choose(3)] } else { 1.0 };
    if let Some(o) = over {
        srcs = o.to_vec();
    }
    for i in 0..n {
        if over.is_some() {
            break;
        }
        // for functions of 3..8 pieces a third alternative: the same polynomial as the previous piece, bit for bit
        let alt = if n <= 2 { cx.choose(3) } else if n <= 8 { cx.choose(if i == 0 { 2 } else { 3 }) + 1 } else if i % 5 == 3 { 3 } else { 1 + i % 2 };
        if alt == 3 && i > 0 {
            let prev = srcs[i - 1].clone();
            srcs.push(prev);
            continue;
        }
        let v = match alt { 0 => &VEC_A, 1 => &VEC_B, _ => &VEC_C };
        srcs.push(v[..T::N].iter().map(|c| c * (1.0 + 0.25 * (i % 7) as f64) * sc).collect());
    }
    // (ends may be +inf: the knot itself must be finite, so infinite ends are replaced by finite stand-ins when placing k0)
    let lo = if ends[0].is_finite() { ends[0] } else { 1.0 };
    let hi = ends.iter().cloned().filter(|e| e.is_finite()).fold(lo, f64::max);
    let fin = |e: f64| if e.is_finite() { e } else { hi + 0.5 };
    // k0.x: inside the first piece, exactly its end, beyond it, exactly the 2nd / 3rd end, exactly the last end, beyond the last end
    let kmode = ks / 4;
    let kx = match kmode {
        0 => if T::LOG { lo * 0.5 } else { lo - 0.75 },
        1 => lo,
        2 => if n > 1 && fin(ends[1]) > lo { lo * 0.5 + fin(ends[1]) * 0.5 } else { lo + 0.25 },
        3 => fin(ends[1.min(n - 1)]),
        4 => fin(ends[2.min(n - 1)]),
        5 => hi,
        _ => hi + 1.5,
    };
    let kx = kx_over.unwrap_or(kx);
    // k0.y: alphabet, or on / next to the first piece's unshifted antiderivative at k0.x
    let ky = match ks % 4 {
        0 => 0.0,
        1 => 2.5 * sc,
        2 => -1e3 * sc,
        _ => {
            let f0 = T::from_nums(&srcs[0]).indefinite().evaluate(kx);
            if f0.is_finite() { f0 * (1.0 + 3e-10) } else { 1.0 }
        }
    };
    let k0 = Knot { x: kx, y: ky };
    let f: Piecewise<T> = Piecewise { segments: ends.iter().zip(&srcs).map(|(&e, c)| Segment { end: e, poly: T::from_nums(c) }).collect() };
    let detail = |obs: Value| json!({"piece_type": type_name::<T>(), "ends": fjs(ends), "piece_coefficients": srcs.iter().map(|c| fjs(c)).collect::<Vec<_>>(), "k0": {"x": fj(kx), "y": fj(ky)}, "observation": obs});
    if n >= 3 || kmode == 0 {
        cx.nontrivial();
    }
    cx.class(kmode);
    if ends.windows(2).any(|w| w[0] == w[1]) {
        cx.class(7);
    }
    if cx.sampling() {
        cx.sample(detail(json!("sample")));
    }
    // --- run the real operations
    let pulled = Rc::new(Cell::new(0usize));
    let r = guard(|| {
        let int = f.integral(k0);
        let ind = f.indefinite();
        // by-reference iterator with laziness monitor
        let p1 = pulled.clone();
        let mut lazy_ok = true;
        let mut by_ref = vec![];
        {
            let it_in = f.segments.iter().map(move |s| { p1.set(p1.get() + 1); s });
            let mut it = Segment::integral_iter_ref(it_in, k0);
            if pulled.get() != 0 { lazy_ok = false; }
            let mut k = 0;
            while let Some(s) = it.next() {
                k += 1;
                if pulled.get() != k { lazy_ok = false; }
                by_ref.push(s);
            }
        }
        pulled.set(0);
        let p2 = pulled.clone();
        let mut by_val = vec![];
        {
            let it_in = f.segments.clone().into_iter().map(move |s| { p2.set(p2.get() + 1); s });
            let mut it = Segment::integral_iter(it_in, k0);
            if pulled.get() != 0 { lazy_ok = false; }
            let mut k = 0;
            while let Some(s) = it.next() {
                k += 1;
                if pulled.get() != k { lazy_ok = false; }
                by_val.push(s);
            }
        }
        // the same pieces must come out whatever kind of iterator feeds the segments in (exact or inexact size hints) ...
        let mut variants: Vec<(&'static str, Vec<Segment<T::IntegralOf>>)> = vec![];
        variants.push(("integral_iter_ref over filter(|_| true)", Segment::integral_iter_ref(f.segments.iter().filter(|_| true), k0).collect()));
        variants.push(("integral_iter over filter(|_| true)", Segment::integral_iter(f.segments.clone().into_iter().filter(|_| true), k0).collect()));
        // ... and whatever the allocation history of the vector handed over by value (spare capacity, truncated, grown by push)
        variants.push(("integral_iter over a vector with spare capacity", Segment::integral_iter(with_slack(&f.segments, 1 + ks % (SLACK_MODES - 1)), k0).collect()));
        variants.push(("Piecewise::integral of a function whose vector has spare capacity", pw_with_slack(&f, 1 + (ks + 1) % (SLACK_MODES - 1)).integral(k0).segments));
        {
            let mut src = f.segments.clone().into_iter();
            variants.push(("integral_iter over iter::from_fn", Segment::integral_iter(std::iter::from_fn(move || src.next()), k0).collect()));
        }
        {
            let halves: Vec<Vec<Segment<T>>> = vec![f.segments[..f.segments.len() / 2].to_vec(), f.segments[f.segments.len() / 2..].to_vec()];
            variants.push(("integral_iter over flat_map of two halves", Segment::integral_iter(halves.into_iter().flat_map(|h| h.into_iter()), k0).collect()));
        }
        variants.push(("integral_iter_ref over chain", Segment::integral_iter_ref(f.segments[..1].iter().chain(f.segments[1..].iter()), k0).collect()));
        // ... and however the by-value iterator is consumed (positional adapters)
        let nseg = f.segments.len();
        let mut positional: Vec<(&'static str, usize, Option<Segment<T::IntegralOf>>)> = vec![];
        // internal iteration and the size hint
        variants.push(("integral_iter consumed by fold", Segment::integral_iter(f.segments.clone(), k0).fold(Vec::new(), |mut v, s| { v.push(s); v })));
        variants.push(("integral_iter_ref consumed by for_each", { let mut v = vec![]; Segment::integral_iter_ref(f.segments.iter(), k0).for_each(|s| v.push(s)); v }));
        {
            let (lo, hi) = Segment::integral_iter(f.segments.clone(), k0).size_hint();
            let (lo2, hi2) = Segment::integral_iter_ref(f.segments.iter(), k0).size_hint();
            if lo > nseg || lo2 > nseg || hi.map_or(false, |h| h < nseg) || hi2.map_or(false, |h| h < nseg) {
                // (reported through the variant comparison below: an empty variant never equals the pieces)
                variants.push(("integral_iter(_ref).size_hint() does not bracket the number of pieces produced", vec![]));
            }
        }
        positional.push(("last()", nseg - 1, Segment::integral_iter(f.segments.clone(), k0).last()));
        for nth in [1usize, 2] {
            if nth < nseg {
                positional.push(("nth(n)", nth, Segment::integral_iter(f.segments.clone(), k0).nth(nth)));
                positional.push(("skip(n).next()", nth, Segment::integral_iter(f.segments.clone(), k0).skip(nth).next()));
            }
        }
        if nseg >= 3 {
            positional.push(("step_by(2).nth(1)", 2, Segment::integral_iter(f.segments.clone(), k0).step_by(2).nth(1)));
        }
        let empty: Piecewise<T> = Piecewise { segments: vec![] };
        let e1 = empty.indefinite().segments.len();
        let e2 = empty.integral(k0).segments.len();
        (int, ind, by_ref, by_val, lazy_ok, e1 + e2, variants, positional)
    });
    cx.evals(4);
    let (int, ind, by_ref, by_val, lazy_ok, empties, variants, positional) = match r {
        Ok(t) => t,
        Err(p) => return Err(Fail::new(format!("piecewise integration panicked: {p}"), detail(json!(p)))),
    };
    if empties != 0 {
        return Err(Fail::new("integrating an empty piecewise function does not give an empty function", detail(json!({}))));
    }
    if !lazy_ok {
        return Err(Fail::new("segment-integration iterators are not lazy (piece i must be produced after consuming exactly i+1 inputs)", detail(json!({}))));
    }
    let nums_of = |p: &[Segment<T::IntegralOf>]| -> Vec<Vec<f64>> { p.iter().map(|s| s.nums()).collect() };
    let (ni, nr, nv) = (nums_of(&int.segments), nums_of(&by_ref), nums_of(&by_val));
    if ni.len() != nr.len() || ni.len() != nv.len() || !ni.iter().zip(&nr).all(|(a, b)| all_bits_eq(a, b)) || !ni.iter().zip(&nv).all(|(a, b)| all_bits_eq(a, b)) {
        return Err(Fail::new("Piecewise::integral, integral_iter_ref and integral_iter (by value) do not produce identical pieces", detail(json!({"integral": ni.iter().map(|v| fjs(v)).collect::<Vec<_>>(), "iter_ref": nr.iter().map(|v| fjs(v)).collect::<Vec<_>>(), "iter_by_value": nv.iter().map(|v| fjs(v)).collect::<Vec<_>>()}))));
    }
    for (vname, pieces) in &variants {
        let nvv = nums_of(pieces);
        if nvv.len() != ni.len() || !nvv.iter().zip(&ni).all(|(a, b)| all_bits_eq(a, b)) {
            return Err(Fail::new(format!("{vname} does not produce the pieces of Piecewise::integral (the result must not depend on the kind of input iterator)"), detail(json!({"integral": ni.iter().map(|v| fjs(v)).collect::<Vec<_>>(), "variant": nvv.iter().map(|v| fjs(v)).collect::<Vec<_>>()}))));
        }
    }
    for (pname, idx, piece) in &positional {
        let ok = match piece {
            Some(p) => all_bits_eq(&p.nums(), &ni[*idx]),
            None => false,
        };
        if !ok {
            return Err(Fail::new(format!("integral_iter(..).{pname}: the piece at position {idx} differs from the piece Piecewise::integral produces there"), detail(json!({"position": idx, "expected": fjs(&ni[*idx]), "got": piece.as_ref().map(|p| fjs(&p.nums()))}))));
        }
    }
    for (name, res) in [("integral(k0)", &int), ("indefinite()", &ind)] {
        if let Some(c) = res.segments.iter().flat_map(|s| s.poly.nums()).find(|c| !c.is_finite()) {
            return Err(Fail::new(format!("{name}: returned a non-finite number for finite pieces and a finite knot"), detail(json!({"number": fj(c)}))));
        }
        let re: Vec<f64> = res.segments.iter().map(|s| s.end).collect();
        if !all_bits_eq(&re, ends) {
            return Err(Fail::new(format!("{name}: breakpoints differ from the source's"), detail(json!({"result_ends": fjs(&re)}))));
        }
        // every piece is an antiderivative of its source piece
        for i in 0..n {
            if let Err(e) = T::anti(&srcs[i], &res.segments[i].poly.nums()) {
                return Err(Fail::new(format!("{name}: piece {i} is not an antiderivative of the source piece: {e}"), detail(json!({"result_piece": fjs(&res.segments[i].poly.nums())}))));
            }
            // and by definite integrals over two probe intervals
            for (a, b) in [(0.75, 2.5), (3.0, 1.25)] {
                let (want, m, extra) = T::def_int(&srcs[i], a, b);
                let p = res.segments[i].poly;
                let (fa, fb) = (p.evaluate(a), p.evaluate(b));
                if !(fa.is_finite() && fb.is_finite()) {
                    return Err(Fail::new(format!("{name}: piece {i} evaluates to a non-finite value"), detail(json!({"a": a, "b": b, "F_i(a)": fj(fa), "F_i(b)": fj(fb)}))));
                }
                let tol = m.add(&dy(p.nums()[0]).abs().mul_i(2 * 840)).mul(&tiny()).add(&extra);
                let err = dy(fb).sub(&dy(fa)).mul_i(840).sub(&want).abs();
                if !err.le(&tol) {
                    return Err(Fail::new(format!("{name}: piece {i}: F_i(b)-F_i(a) is not the integral of the source piece over [a,b]"), detail(json!({"a": a, "b": b, "F_i(a)": fj(fa), "F_i(b)": fj(fb), "exact~": want.to_f64() / 840.0, "tolerance~": tol.to_f64() / 840.0, "result_piece": fjs(&p.nums())}))));
                }
                cx.ratio(err.to_f64() / tol.to_f64());
            }
        }
        // continuity at interior breakpoints (each side with that piece's own real evaluate)
        for i in 0..n - 1 {
            let e = ends[i];
            if !e.is_finite() {
                continue; // nothing lies beyond an infinite breakpoint
            }
            let (l, rr) = (res.segments[i].poly, res.segments[i + 1].poly);
            let (yl, yr) = (l.evaluate(e), rr.evaluate(e));
            let tol = 2f64.powi(-40) * (l.major(e) + rr.major(e));
            if !((yl - yr).abs() <= tol) {
                return Err(Fail::new(format!("{name}: adjacent pieces disagree at an interior breakpoint"), detail(json!({"breakpoint_index": i, "breakpoint": fj(e), "left_piece_value": fj(yl), "right_piece_value": fj(yr), "tolerance": tol}))));
            }
            if tol > 0.0 {
                cx.ratio((yl - yr).abs() / tol);
            }
        }
    }
    // first piece passes through k0
    let p0 = int.segments[0].poly;
    let y0 = p0.evaluate(kx);
    let tol0 = 2f64.powi(-40) * (p0.major(kx) + ky.abs());
    if !((y0 - ky).abs() <= tol0) {
        return Err(Fail::new("integral(k0): the first piece does not pass through k0", detail(json!({"F_0(k0.x)": fj(y0), "tolerance": tol0}))));
    }
    // indefinite(): first piece is the source piece's own indefinite integral (additive constant zero)
    let ind0 = f.segments[0].poly.indefinite().nums();
    if !all_bits_eq(&ind.segments[0].poly.nums(), &ind0) || ind0[0] != 0.0 {
        return Err(Fail::new("indefinite(): the first piece is not the first source piece's indefinite integral with zero additive constant", detail(json!({"first_piece": fjs(&ind.segments[0].poly.nums())}))));
    }
    // the true integral: only when k0.x lies in the first piece's domain
    if kx < ends[0] {
        let alpha: Vec<f64> = order_alphabet(ends).into_iter().filter(|t| t.is_finite() && t.abs() < 1e6 && (!T::LOG || *t > 1e-6)).collect();
        // prefix[j] = 840*(k0.y + integral from k0.x to the left edge of piece j), with majorant and ln allowance
        let mut prefix: Vec<(Dy, Dy, Dy)> = Vec::with_capacity(n);
        let mut acc = (dy(ky).mul_i(840), dy(ky).abs().mul_i(840), Dy::zero());
        let mut from = kx;
        for i in 0..n {
            prefix.push(acc.clone());
            if !ends[i].is_finite() {
                // pieces after an infinite breakpoint are never in force for a finite t: pad and stop
                while prefix.len() < n {
                    prefix.push(acc.clone());
                }
                break;
            }
            let (v, mm, ex) = T::def_int(&srcs[i], from, ends[i]);
            acc = (acc.0.add(&v), acc.1.add(&mm).add(&dy(int.segments[i].poly.nums()[0]).abs().mul_i(840)), acc.2.add(&ex));
            from = ends[i];
        }
        for &t in &alpha {
            let j = ref_index(ends, t);
            let left = if j == 0 { kx } else { ends[j - 1] };
            let (v, mm, ex) = T::def_int(&srcs[j], left, t);
            let want = prefix[j].0.add(&v);
            let m = prefix[j].1.add(&mm).add(&dy(int.segments[j].poly.nums()[0]).abs().mul_i(840));
            let extra = prefix[j].2.add(&ex);
            let got = int.evaluate(t);
            cx.evals(1);
            if !got.is_finite() {
                return Err(Fail::new("integral(k0) evaluates to a non-finite value", detail(json!({"t": fj(t), "got": fj(got)}))));
            }
            let tol = m.mul(&tiny()).add(&extra);
            let err = dy(got).mul_i(840).sub(&want).abs();
            if !err.le(&tol) {
                return Err(Fail::new("integral(k0) evaluated at t is not k0.y + the integral of f from k0.x to t", detail(json!({"t": fj(t), "piece_in_force": j, "got": fj(got), "exact~": want.to_f64() / 840.0, "tolerance~": tol.to_f64() / 840.0}))));
            }
            cx.ratio(err.to_f64() / tol.to_f64());
        }
    }
    Ok(())
}

pub fn check(thorough: bool, _seed: u64) -> Check {
    let maxlen = if thorough { 5 } else { 4 };
    let mut ps = shapes(&[-1.0, 0.5, 2.0, 3.0], maxlen);
    let mut ls = shapes(&[0.5, 1.0, 2.0, 4.0], maxlen);
    // the last piece's end is conventionally +inf: functions on the whole line and right-open last pieces
    for extra in [vec![f64::INFINITY], vec![2.0, f64::INFINITY], vec![0.5, 2.0, f64::INFINITY], vec![0.5, 0.5, 2.0, f64::INFINITY]] {
        ps.push(extra.clone());
        ls.push(extra);
    }
    // breakpoints next to 1, where ln changes sign and is tiny (log pieces only)
    for extra in [vec![0.5, 1.00005, 2.0], vec![0.99995, 1.00005, 3.0], vec![0.9999999, 1.0, 1.0000001, 2.0], vec![1.00005]] {
        ls.push(extra);
    }
    let poly_shapes = Arc::new(ps);
    let log_shapes = Arc::new(ls);
    let (np, nl) = (poly_shapes.len(), log_shapes.len());
    let ps = poly_shapes.clone();
    let poly = Phase {
        name: "polynomial-pieces",
        units: 8 * np,
        split: 1,
        body: Box::new(move |unit, cx| {
            let d = unit / np;
            let ends = &ps[unit % np];
            let ks = cx.choose(28);
            match d {
                0 => run::<Poly0>(ends, cx, ks),
                1 => run::<Poly1>(ends, cx, ks),
                2 => run::<Poly2>(ends, cx, ks),
                3 => run::<Poly3>(ends, cx, ks),
                4 => run::<Poly4>(ends, cx, ks),
                5 => run::<Poly5>(ends, cx, ks),
                6 => run::<Poly6>(ends, cx, ks),
                _ => run::<Poly7>(ends, cx, ks),
            }
        }),
        classes: vec![("k0.x_inside_first_piece", true), ("k0.x_at_first_end", true), ("k0.x_beyond_first_end", true), ("k0.x_at_second_end", true), ("k0.x_at_third_end", true), ("k0.x_at_last_end", true), ("k0.x_beyond_last_end", true), ("duplicate_breakpoints", true)],
        bounds: json!({"piece_types": "Poly0..Poly7", "shapes": format!("end lists of length 1..{maxlen} over {{-1,0.5,2,3}}"), "per piece": "coefficients from 3 vectors (all ones, alternating fractions, lane identifier), scaled per piece, or (3+ pieces) the previous piece's polynomial repeated bit for bit; functions of 1-2 pieces also with everything scaled by 2^-60 and 2^40", "open_ended_shapes": "[+inf], [2,+inf], [0.5,2,+inf], [0.5,0.5,2,+inf] (an infinite breakpoint only as the last one: pieces behind an interior infinite breakpoint are unreachable and their anchoring is inf - inf)",
            "k0": "x in {inside first piece, = first end, beyond it, = second end, = third end, = last end, beyond last end} x y in {0, 2.5, -1e3, F0(k0.x)(1+3e-10)}", "evaluation points": "finite part of A(ends)"}),
    };
    let ls = log_shapes.clone();
    let log = Phase {
        name: "log-polynomial-pieces",
        units: 9 * nl,
        split: 1,
        body: Box::new(move |unit, cx| {
            let d = unit / nl;
            let ends = &ls[unit % nl];
            let ks = cx.choose(28);
            match d {
                0 => run::<Log<Poly0>>(ends, cx, ks),
                1 => run::<Log<Poly1>>(ends, cx, ks),
                2 => run::<Log<Poly2>>(ends, cx, ks),
                3 => run::<Log<Poly3>>(ends, cx, ks),
                4 => run::<Log<Poly4>>(ends, cx, ks),
                5 => run::<Log<Poly5>>(ends, cx, ks),
                6 => run::<Log<Poly6>>(ends, cx, ks),
                7 => run::<Log<Poly7>>(ends, cx, ks),
                _ => run::<Log<Poly8>>(ends, cx, ks),
            }
        }),
        classes: vec![("k0.x_inside_first_piece", true), ("k0.x_at_first_end", true), ("k0.x_beyond_first_end", true), ("k0.x_at_second_end", true), ("k0.x_at_third_end", true), ("k0.x_at_last_end", true), ("k0.x_beyond_last_end", true), ("duplicate_breakpoints", true)],
        bounds: json!({"piece_types": "Log<Poly0>..Log<Poly8>", "shapes": format!("end lists of length 1..{maxlen} over {{0.5,1,2,4}}; [0.5,1.00005,2], [0.99995,1.00005,3], [1-1e-7,1,1+1e-7,2], [1.00005] (breakpoints next to 1)"), "per piece": "as for polynomial pieces", "k0": "as for polynomial pieces (x>0)", "evaluation points": "positive finite part of A(ends)"}),
    };
    // big functions around size thresholds (the running knot is threaded through hundreds of pieces)
    let big: Vec<Vec<f64>> = [9usize, 17, 33, 65, 129, 257, 300].into_iter().chain(if thorough { vec![513usize, 1025] } else { vec![] })
        .flat_map(|n| {
            let lin: Vec<f64> = (0..n).map(|i| 0.5 + i as f64 * 0.125).collect();
            let mut dup = lin.clone();
            for i in (3..n).step_by(7) { dup[i] = dup[i - 1]; }
            vec![lin, dup]
        })
        .collect();
    let nb = big.len();
    let big = Arc::new(big);
    let bigp = Phase {
        name: "big-functions",
        units: nb * 4,
        split: 0,
        body: Box::new(move |unit, cx| {
            let ends = &big[unit / 4];
            let ks = [0usize, 9, 14, 23][cx.choose(4)];
            match unit % 4 {
                0 => run::<Poly1>(ends, cx, ks),
                1 => run::<Poly3>(ends, cx, ks),
                2 => run::<Log<Poly1>>(ends, cx, ks),
                _ => run::<Log<Poly4>>(ends, cx, ks),
            }
        }),
        classes: (0..8).map(|_| ("", false)).collect::<Vec<_>>().into_iter().enumerate().map(|(i, _)| (["k0.x_inside_first_piece", "k0.x_at_first_end", "k0.x_beyond_first_end", "k0.x_at_second_end", "k0.x_at_third_end", "k0.x_at_last_end", "k0.x_beyond_last_end", "duplicate_breakpoints"][i], false)).collect(),
        bounds: json!({"shapes": "n = 9,17,33,65,129,257,300 (513,1025 thorough) breakpoints 0.5 + i/8, strictly increasing and with every 7th breakpoint repeated", "piece_types": "Poly1, Poly3, Log<Poly1>, Log<Poly4>", "k0": "4 knot positions"}),
    };
    // sparse pieces and coincidences among the coefficients (a term that vanishes, a derived quantity that is exactly zero):
    // the first piece takes every vector of a small cube, the second piece is fixed
    let cube = Phase {
        name: "coefficient-cube",
        units: 17,
        split: 2,
        body: Box::new(move |unit, cx| {
            let log = unit >= 8;
            let d = if log { unit - 8 } else { unit };
            let n = d + 1;
            // up to 5 coefficients: {0,1,4,-2,0.25}^n; beyond: {0,1,-2}^n on the 7 highest lanes
            let c: Vec<f64> = if n <= 5 {
                (0..n).map(|_| [0.0, 1.0, 4.0, -2.0, 0.25][cx.choose(5)]).collect()
            } else {
                (0..n).map(|i| if i + 7 >= n { [0.0, 1.0, -2.0][cx.choose(3)] } else { 1.0 }).collect()
            };
            let two = cx.flag();
            let ends: Vec<f64> = if two { vec![1.5, 4.0] } else { vec![3.0] };
            let mut srcs = vec![c.clone()];
            if two {
                srcs.push(VEC_B[..n].to_vec());
            }
            let ks = [0usize, 6, 9, 23][cx.choose(4)];
            macro_rules! go { ($($i:literal => $t:ty),*) => { match unit { $($i => run_with::<$t>(&ends, cx, ks, Some(&srcs), None),)* _ => unreachable!() } }; }
            go!(0 => Poly0, 1 => Poly1, 2 => Poly2, 3 => Poly3, 4 => Poly4, 5 => Poly5, 6 => Poly6, 7 => Poly7,
                8 => Log<Poly0>, 9 => Log<Poly1>, 10 => Log<Poly2>, 11 => Log<Poly3>, 12 => Log<Poly4>, 13 => Log<Poly5>, 14 => Log<Poly6>, 15 => Log<Poly7>, 16 => Log<Poly8>)
        }),
        classes: (0..8).map(|i| (["k0.x_inside_first_piece", "k0.x_at_first_end", "k0.x_beyond_first_end", "k0.x_at_second_end", "k0.x_at_third_end", "k0.x_at_last_end", "k0.x_beyond_last_end", "duplicate_breakpoints"][i], false)).collect(),
        bounds: json!({"piece_types": "Poly0..Poly7, Log<Poly0>..Log<Poly8>", "first piece": "every coefficient vector in {0,1,4,-2,0.25}^n for n <= 5 coefficients; {0,1,-2} on the 7 highest lanes beyond", "shapes": "[3] and [1.5,4] (second piece fixed)", "k0": "4 knot positions"}),
    };
    // anchors far away from the next breakpoint: k0.x (or a breakpoint) 10^9 .. 10^16 times larger in magnitude than the breakpoint
    // that follows. The first piece's coefficients are scaled so that its terms stay of order one over that span (c_i ~ X^-(i+1)),
    // the later pieces are of order one: a knot that is threaded to the wrong abscissa shows at full size in the later pieces.
    let far = Phase {
        name: "far-anchors",
        units: 4,
        split: 1,
        body: Box::new(move |unit, cx| {
            let big = [1e16, 3e15, 1e12, 1e9][cx.choose(4)];
            let layout = cx.choose(3);
            // 0: k0.x = -big before [0.5, 2, 3];  1: breakpoints [-big, 0.25, 2] with k0.x = -big;  2: breakpoints [-2 big, -big, 0.5, 2], k0.x inside the first piece
            let (ends, kx): (Vec<f64>, f64) = match layout {
                0 => (vec![0.5, 2.0, 3.0], -big),
                1 => (vec![-big, 0.25, 2.0], -big),
                _ => (vec![-2.0 * big, -big, 0.5, 2.0], -2.5 * big),
            };
            let n = unit + 1; // Poly0..Poly3
            let far_piece: Vec<f64> = (0..n).map(|i| VEC_B[i] / big.powi(i as i32 + 1)).collect();
            let mut srcs: Vec<Vec<f64>> = vec![];
            for (i, _) in ends.iter().enumerate() {
                // pieces that live on the far side take the scaled coefficients, the others order-one coefficients
                let on_far_side = match layout { 0 => i == 0, 1 => i <= 1, _ => i <= 2 };
                srcs.push(if on_far_side { far_piece.clone() } else { VEC_C[..n].iter().map(|c| c * (1.0 + 0.25 * i as f64)).collect() });
            }
            let ks = [0usize, 1, 2][cx.choose(3)]; // k0.y in {0, 2.5, -1e3}
            match unit {
                0 => run_with::<Poly0>(&ends, cx, ks, Some(&srcs), Some(kx)),
                1 => run_with::<Poly1>(&ends, cx, ks, Some(&srcs), Some(kx)),
                2 => run_with::<Poly2>(&ends, cx, ks, Some(&srcs), Some(kx)),
                _ => run_with::<Poly3>(&ends, cx, ks, Some(&srcs), Some(kx)),
            }
        }),
        classes: (0..8).map(|i| (["k0.x_inside_first_piece", "k0.x_at_first_end", "k0.x_beyond_first_end", "k0.x_at_second_end", "k0.x_at_third_end", "k0.x_at_last_end", "k0.x_beyond_last_end", "duplicate_breakpoints"][i], false)).collect(),
        bounds: json!({"piece_types": "Poly0..Poly3", "layouts": "k0.x = -X before breakpoints [0.5,2,3]; breakpoints [-X,0.25,2] with k0.x = -X; breakpoints [-2X,-X,0.5,2] with k0.x = -2.5X; X in {1e16, 3e15, 1e12, 1e9}",
            "coefficients": "pieces on the far side scaled so that c_i X^(i+1) is of order one, the others of order one", "k0.y": "{0, 2.5, -1e3}"}),
    };
    // every number of pieces 9..80 (160 thorough) for a polynomial and a log piece type (loops that treat the middle, the last or
    // every k-th piece specially), one knot position each
    let every = Phase {
        name: "every-number-of-pieces",
        units: 2,
        split: 1,
        body: Box::new(move |unit, cx| {
            let n = 9 + cx.choose(if thorough { 152 } else { 72 });
            let ends: Vec<f64> = (0..n).map(|i| 0.5 + i as f64 * 0.125).collect();
            let ks = [0usize, 9][cx.choose(2)];
            if unit == 0 { run::<Poly2>(&ends, cx, ks) } else { run::<Log<Poly1>>(&ends, cx, ks) }
        }),
        classes: (0..8).map(|i| (["k0.x_inside_first_piece", "k0.x_at_first_end", "k0.x_beyond_first_end", "k0.x_at_second_end", "k0.x_at_third_end", "k0.x_at_last_end", "k0.x_beyond_last_end", "duplicate_breakpoints"][i], false)).collect(),
        bounds: json!({"piece_types": "Poly2, Log<Poly1>", "pieces": if thorough {"every n from 9 to 160"} else {"every n from 9 to 80"}, "k0": "2 knot positions"}),
    };
    // very long functions, structure only (piece counts and indices beyond 16-bit): the number of pieces, every breakpoint on
    // bits, the three ways of integrating agree on bits, and the pieces agree at 64 spread breakpoints to 1e-9 of the value
    let huge = Phase {
        name: "very-long-functions-structure",
        units: 2,
        split: 0,
        body: Box::new(move |unit, cx| {
            let n = [65537usize, 70001, 131075][cx.choose(if thorough { 3 } else { 2 })];
            cx.nontrivial();
            cx.evals(3);
            if cx.sampling() {
                cx.sample(json!({"pieces": n, "piece_type": if unit == 0 { "Poly1" } else { "Log<Poly1>" }}));
            }
            fn go<T>(n: usize, name: &str) -> Verdict
            where
                T: Nums + Copy + HasIntegral,
                T::IntegralOf: Nums + Evaluate + Translate + Copy + PartialEq,
            {
                let f: Piecewise<T> = Piecewise { segments: (0..n).map(|i| Segment { end: 1.0 + i as f64 * 0.001953125, poly: T::from_nums(&[1.0 + (i % 7) as f64 * 0.25, -0.5 + (i % 3) as f64]) }).collect() };
                let k0 = Knot { x: 1.0, y: 2.0 };
                let r = guard(|| {
                    let a = f.integral(k0);
                    let b: Vec<Segment<T::IntegralOf>> = Segment::integral_iter_ref(f.segments.iter(), k0).collect();
                    let c: Vec<Segment<T::IntegralOf>> = Segment::integral_iter(f.segments.clone(), k0).collect();
                    (a, b, c)
                });
                let d = |o: Value| json!({"piece_type": name, "pieces": n, "ends": "1 + i/512", "observation": o});
                let (a, b, c) = r.map_err(|p| Fail::new(format!("piecewise integration panicked: {p}"), d(json!(p))))?;
                if a.segments.len() != n || b.len() != n || c.len() != n {
                    return Err(Fail::new("integration changes the number of pieces", d(json!({"integral": a.segments.len(), "integral_iter_ref": b.len(), "integral_iter": c.len()}))));
                }
                for i in 0..n {
                    if a.segments[i].end.to_bits() != f.segments[i].end.to_bits() {
                        return Err(Fail::new("integration changes a breakpoint", d(json!({"index": i}))));
                    }
                    if a.segments[i] != b[i] || a.segments[i] != c[i] {
                        return Err(Fail::new("Piecewise::integral, integral_iter_ref and integral_iter (by value) do not produce identical pieces", d(json!({"index": i}))));
                    }
                }
                for j in 0..64 {
                    let i = (j * (n - 2)) / 63;
                    let e = a.segments[i].end;
                    let (l, r) = (a.segments[i].poly.evaluate(e), a.segments[i + 1].poly.evaluate(e));
                    if !(l.is_finite() && r.is_finite()) || (l - r).abs() > 1e-9 * (1.0 + l.abs()) {
                        return Err(Fail::new("integral(k0): adjacent pieces disagree at an interior breakpoint", d(json!({"breakpoint_index": i, "left": fj(l), "right": fj(r)}))));
                    }
                }
                Ok(())
            }
            if unit == 0 { go::<Poly1>(n, "Poly1") } else { go::<Log<Poly1>>(n, "Log<Poly1>") }
        }),
        classes: vec![],
        bounds: json!({"piece_types": "Poly1, Log<Poly1>", "pieces": if thorough {"65537, 70001, 131075"} else {"65537, 70001"}, "comparison": "number of pieces, every breakpoint on bits, integral == integral_iter_ref == integral_iter piece by piece, continuity at 64 spread breakpoints to 1e-9 relative (floating point, no exact reference at this size)"}),
    };
    Check {
        id: "C11",
        rule: "choice tree: (piece type, shape) unit x k0 x one coefficient vector per piece (the running knot threaded from piece to piece is the state, each piece one step); each leaf runs the real Piecewise::integral, indefinite, integral_iter_ref and integral_iter; non-trivial = >=3 pieces or k0.x strictly inside the first piece".into(),
        assumptions: vec!["f64::ln within 1 ulp (propagated into the tolerance)".into(), "tolerance 2^-40 * sum of the magnitudes of the terms of the pieces involved (accumulated constants included)".into()],
        phases: vec![poly, log, bigp, cube, far, every, huge],
        extra: Default::default(),
        controls: vec![],
    }
}
