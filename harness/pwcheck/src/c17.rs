//! C17 — approximate equality is number-by-number for every type.
use crate::c14::LANE_ID;
use crate::common::*;
use approx::{AbsDiffEq, RelativeEq};
use serde_json::{json, Value};
use std::sync::Arc;
use xplore::*;

const EPS: [f64; 4] = [0.0, f64::EPSILON, 1e-3, f64::INFINITY];
const REL: [f64; 4] = [0.0, f64::EPSILON, 1e-3, 2.0];
/// multiplicative perturbations: none, inside the 1e-3 tolerances, outside them
const PERT: [f64; 3] = [1.0, 1.0 + 4e-4, 1.0 + 2.5e-3];

type Run = Box<dyn Fn(&[f64], &[f64], f64, f64) -> Result<(bool, bool), (String, Value)> + Send + Sync>;
struct Case {
    ty: String,
    n: usize,
    run: Run,
}

fn oracle(a: &[f64], b: &[f64], eps: f64, rel: f64) -> (bool, bool) {
    let abs = a.len() == b.len() && a.iter().zip(b).all(|(x, y)| f64::abs_diff_eq(x, y, eps));
    let re = a.len() == b.len() && a.iter().zip(b).all(|(x, y)| f64::relative_eq(x, y, eps, rel));
    (abs, re)
}

fn verdict(ty: &str, got: (bool, bool, bool, bool, bool), want: (bool, bool), same: bool, finite: bool) -> Result<(bool, bool), (String, Value)> {
    let (abs_ab, abs_ba, rel_ab, rel_ba, eq) = got;
    let obs = json!({"abs_diff_eq(a,b)": abs_ab, "abs_diff_eq(b,a)": abs_ba, "relative_eq(a,b)": rel_ab, "relative_eq(b,a)": rel_ba, "a==b": eq,
                     "number-by-number abs_diff_eq": want.0, "number-by-number relative_eq": want.1});
    if abs_ab != want.0 {
        return Err((format!("{ty}: abs_diff_eq is not the conjunction of the per-number comparisons"), obs));
    }
    if rel_ab != want.1 {
        return Err((format!("{ty}: relative_eq is not the conjunction of the per-number comparisons"), obs));
    }
    if abs_ab != abs_ba || rel_ab != rel_ba {
        return Err((format!("{ty}: approximate equality is not symmetric"), obs));
    }
    // derived consequences are stated for finite values only (approx's own f64 abs_diff_eq(inf, inf) is false)
    if finite && eq && !(abs_ab && rel_ab) {
        return Err((format!("{ty}: a == b but not approximately equal"), obs));
    }
    if finite && same && !(abs_ab && rel_ab) {
        return Err((format!("{ty}: approximate equality is not reflexive on a finite value"), obs));
    }
    Ok(want)
}

fn form_case<T>(ty: String) -> Case
where
    T: Nums + AbsDiffEq<Epsilon = f64> + RelativeEq + PartialEq,
{
    let t2 = ty.clone();
    Case {
        ty,
        n: T::N,
        run: Box::new(move |a, b, eps, rel| {
            let (x, y) = (T::from_nums(a), T::from_nums(b));
            let got = guard(|| (x.abs_diff_eq(&y, eps), y.abs_diff_eq(&x, eps), x.relative_eq(&y, eps, rel), y.relative_eq(&x, eps, rel), x == y))
                .map_err(|p| (format!("approx comparison panicked: {p}"), json!(p)))?;
            verdict(&t2, got, oracle(a, b, eps, rel), all_bits_eq(a, b), a.iter().chain(b.iter()).all(|v| v.is_finite()))
        }),
    }
}
fn pw_case<T>(ty: String, pieces: usize) -> Case
where
    T: Nums + AbsDiffEq<Epsilon = f64> + RelativeEq + PartialEq + Clone,
{
    let t2 = format!("Piecewise<{ty}> with {pieces} pieces");
    Case {
        ty: t2.clone(),
        n: pieces * (T::N + 1),
        run: Box::new(move |a, b, eps, rel| {
            let (x, y) = (pw_with_slack(&pw_from_nums::<T>(a), a.len() % SLACK_MODES), pw_with_slack(&pw_from_nums::<T>(b), (a.len() / 2) % SLACK_MODES));
            let got = guard(|| (x.abs_diff_eq(&y, eps), y.abs_diff_eq(&x, eps), x.relative_eq(&y, eps, rel), y.relative_eq(&x, eps, rel), x == y))
                .map_err(|p| (format!("approx comparison panicked: {p}"), json!(p)))?;
            verdict(&t2, got, oracle(a, b, eps, rel), all_bits_eq(a, b), a.iter().chain(b.iter()).all(|v| v.is_finite()))
        }),
    }
}
fn polyn_case(len: usize) -> Case {
    let t2 = format!("PolyN(len {len})");
    Case {
        ty: t2.clone(),
        n: len,
        run: Box::new(move |a, b, eps, rel| {
            let (x, y) = (PolyN(with_slack(a, a.len() % SLACK_MODES)), PolyN(with_slack(b, (a.len() / 2) % SLACK_MODES)));
            let got = guard(|| (x.abs_diff_eq(&y, eps), y.abs_diff_eq(&x, eps), x.relative_eq(&y, eps, rel), y.relative_eq(&x, eps, rel), x == y))
                .map_err(|p| (format!("approx comparison panicked: {p}"), json!(p)))?;
            verdict(&t2, got, oracle(a, b, eps, rel), all_bits_eq(a, b), a.iter().chain(b.iter()).all(|v| v.is_finite()))
        }),
    }
}

fn cases() -> Vec<Case> {
    let mut v = vec![];
    macro_rules! poly { ($($t:ident),*) => {$(
        v.push(form_case::<$t>(stringify!($t).into()));
        v.push(form_case::<IntOfLog<$t>>(format!("IntOfLog<{}>", stringify!($t))));
        v.push(form_case::<Log<$t>>(format!("Log<{}>", stringify!($t))));
    )*}; }
    poly!(Poly0, Poly1, Poly2, Poly3, Poly4, Poly5, Poly6, Poly7, Poly8);
    v.push(form_case::<IntOfLogPoly4>("IntOfLogPoly4".into()));
    v.push(form_case::<Segment<Poly2>>("Segment<Poly2>".into()));
    v.push(form_case::<Segment<IntOfLogPoly4>>("Segment<IntOfLogPoly4>".into()));
    v.push(form_case::<Segment<Log<Poly1>>>("Segment<Log<Poly1>>".into()));
    v.push(form_case::<Segment<IntOfLog<Poly3>>>("Segment<IntOfLog<Poly3>>".into()));
    for p in 0..=3 {
        v.push(pw_case::<Poly2>("Poly2".into(), p));
        v.push(pw_case::<Log<Poly1>>("Log<Poly1>".into(), p));
    }
    v.push(pw_case::<IntOfLogPoly4>("IntOfLogPoly4".into(), 2));
    for l in 0..=4 {
        v.push(polyn_case(l));
    }
    v
}

#[allow(dead_code)]
fn mantissa_note() {}
fn base(n: usize) -> Vec<f64> {
    // magnitudes from 1e-3 to 1e6, both signs, pairwise different
    let scale = [1.0, 1e-3, 1e3, 1e6, 0.25, 17.0, 1e-2, 300.0, 1.0, 1e5, 2.0, 0.5];
    (0..n).map(|i| LANE_ID[i % LANE_ID.len()] * scale[i % scale.len()] + i as f64 * 1e-3).collect()
}

pub fn check(thorough: bool, _seed: u64) -> Check {
    let cs = Arc::new(cases());
    let names: Vec<String> = cs.iter().map(|c| c.ty.clone()).collect();
    let n = cs.len();
    let cs2 = cs.clone();
    let perturb = Phase {
        name: "perturbation-subsets",
        units: n,
        split: 3,
        body: Box::new(move |unit, cx| {
            let c = &cs2[unit];
            let a = base(c.n);
            // every assignment of a perturbation to every number (first `cap` numbers; single sweeps beyond)
            let cap = if thorough { 11 } else { 9 };
            let mut b = a.clone();
            let mut touched = 0;
            for i in 0..c.n.min(cap) {
                let k = cx.choose(3);
                b[i] = a[i] * PERT[k];
                if k > 0 {
                    touched += 1;
                }
            }
            if c.n > cap {
                let lane = cx.choose(c.n - cap + 1);
                if lane > 0 {
                    b[cap + lane - 1] = a[cap + lane - 1] * PERT[1 + cx.choose(2)];
                    touched += 1;
                }
            }
            let eps = *cx.pick(&EPS);
            let rel = *cx.pick(&REL);
            if touched >= 1 {
                cx.nontrivial();
            }
            cx.evals(5);
            if cx.sampling() {
                cx.sample(json!({"type": c.ty, "a": a, "b": b, "epsilon": fj(eps), "max_relative": rel}));
            }
            match (c.run)(&a, &b, eps, rel) {
                Ok((abs, re)) => {
                    cx.class(abs as usize);
                    cx.class(2 + re as usize);
                    if touched == 1 {
                        cx.class(4);
                    }
                    Ok(())
                }
                Err((what, d)) => Err(Fail::new(what, json!({"a": fjs(&a), "b": fjs(&b), "epsilon": fj(eps), "max_relative": fj(rel), "observation": d}))),
            }
        }),
        classes: vec![("abs_diff_eq_false", true), ("abs_diff_eq_true", true), ("relative_eq_false", true), ("relative_eq_true", true), ("single_number_perturbed", true)],
        bounds: json!({"types": "every type implementing the approx traits (list under approx_types)",
            "pairs": format!("base value vs every assignment of {{x1, x(1+4e-4), x(1+2.5e-3)}} to each of the first {} numbers (single sweeps beyond)", if thorough {11} else {9}),
            "tolerances": "epsilon in {0, f64::EPSILON, 1e-3, +inf} x max_relative in {0, f64::EPSILON, 1e-3, 2}; both relations, both argument orders, =="}),
    };
    // special values and length mismatches
    let cs3 = cs.clone();
    let special = Phase {
        name: "special-values-and-lengths",
        units: n,
        split: 0,
        body: Box::new(move |unit, cx| {
            let c = &cs3[unit];
            let a = base(c.n);
            let mut b = a.clone();
            if c.n > 0 {
                let lane = cx.choose(c.n);
                let al = a[lane];
                let s2 = exact::succ(exact::succ(al));
                let vals = [
                    0.0, -0.0, f64::EPSILON, -al, al + 1e-3, exact::succ(al), 1e300, f64::INFINITY,
                    // a few ulps away, and exactly one tolerance away (boundary of <=)
                    s2, exact::succ(s2), exact::pred(exact::pred(al)), al + al.abs() * f64::EPSILON, al * (1.0 + 1e-3), al + 1e-3 * al.abs().max(1.0),
                ];
                let v = vals[cx.choose(vals.len())];
                b[lane] = v;
                if cx.flag() {
                    let mut a2 = a.clone();
                    a2[lane] = [0.0, 1e-4, f64::INFINITY, 1.5e308, -1.5e308, 3e-308, -2.5e-308, 1e-310][cx.choose(8)];
                    if cx.flag() {
                        // the other operand at the same extreme scale
                        b[lane] = -a2[lane] * [1.0, 1.001, 0.5][cx.choose(3)];
                    }
                    let eps = *cx.pick(&EPS);
                    let rel = *cx.pick(&REL);
                    cx.nontrivial();
                    cx.evals(5);
                    return (c.run)(&a2, &b, eps, rel).map(|_| ()).map_err(|(what, d)| Fail::new(what, json!({"a": fjs(&a2), "b": fjs(&b), "epsilon": fj(eps), "max_relative": fj(rel), "observation": d})));
                }
            }
            let eps = *cx.pick(&EPS);
            let rel = *cx.pick(&REL);
            cx.nontrivial();
            cx.evals(5);
            if cx.sampling() {
                cx.sample(json!({"type": c.ty, "a": fjs(&a), "b": fjs(&b)}));
            }
            (c.run)(&a, &b, eps, rel).map(|_| ()).map_err(|(what, d)| Fail::new(what, json!({"a": fjs(&a), "b": fjs(&b), "epsilon": fj(eps), "max_relative": fj(rel), "observation": d})))
        }),
        classes: vec![],
        bounds: json!({"pairs": "one number replaced by {0,-0.0,EPSILON,-x,x+1e-3,succ(x),1e300,+inf, x+-2ulp, x+3ulp, x+|x|EPSILON, x(1+1e-3), x+1e-3 max(|x|,1)}, optionally against {0,1e-4,+inf,+-1.5e308,3e-308,-2.5e-308,1e-310} (and its negated / scaled copy) in the same position of the other operand"}),
    };
    // long piecewise functions / PolyN: one number perturbed at every position in turn (blocked or chunked comparisons)
    let big = Phase {
        name: "long-values-single-perturbation",
        units: 4,
        split: 2,
        body: Box::new(move |unit, cx| {
            // every number of pieces / coefficients from 8 to 80 (160 thorough), then the threshold sizes
            let top = if thorough { 160 } else { 80 };
            let k = cx.choose(top - 7 + 3);
            let n = if k < top - 7 { 8 + k } else { [100usize, 129, 257][k - (top - 7)] };
            let (per, total) = match unit { 0 => (4, n * 4), 1 => (7, n * 7), 2 => (3, n * 3), _ => (1, n) };
            let _ = per;
            let a = base(total);
            let pos = cx.choose(total);
            let mut b = a.clone();
            b[pos] = a[pos] * PERT[1 + cx.choose(2)];
            let eps = *cx.pick(&EPS);
            let rel = *cx.pick(&REL);
            cx.nontrivial();
            cx.evals(4);
            if cx.sampling() {
                cx.sample(json!({"kind": unit, "numbers": total, "perturbed_position": pos, "epsilon": fj(eps), "max_relative": rel}));
            }
            let got = match unit {
                0 => { let (x, y) = (pw_from_nums::<Poly2>(&a), pw_from_nums::<Poly2>(&b)); guard(|| (x.abs_diff_eq(&y, eps), y.abs_diff_eq(&x, eps), x.relative_eq(&y, eps, rel), y.relative_eq(&x, eps, rel), x == y)) }
                1 => { let (x, y) = (pw_from_nums::<IntOfLogPoly4>(&a), pw_from_nums::<IntOfLogPoly4>(&b)); guard(|| (x.abs_diff_eq(&y, eps), y.abs_diff_eq(&x, eps), x.relative_eq(&y, eps, rel), y.relative_eq(&x, eps, rel), x == y)) }
                2 => { let (x, y) = (pw_from_nums::<Log<Poly1>>(&a), pw_from_nums::<Log<Poly1>>(&b)); guard(|| (x.abs_diff_eq(&y, eps), y.abs_diff_eq(&x, eps), x.relative_eq(&y, eps, rel), y.relative_eq(&x, eps, rel), x == y)) }
                _ => { let (x, y) = (PolyN(a.clone()), PolyN(b.clone())); guard(|| (x.abs_diff_eq(&y, eps), y.abs_diff_eq(&x, eps), x.relative_eq(&y, eps, rel), y.relative_eq(&x, eps, rel), x == y)) }
            };
            let got = got.map_err(|p| Fail::new(format!("approx comparison panicked: {p}"), json!({"numbers": total})))?;
            let names = ["Piecewise<Poly2>", "Piecewise<IntOfLogPoly4>", "Piecewise<Log<Poly1>>", "PolyN"];
            verdict(names[unit], got, oracle(&a, &b, eps, rel), false, true).map(|_| ()).map_err(|(what, d)| Fail::new(what, json!({"pieces_or_length": n, "numbers": total, "perturbed_position": pos, "a[pos]": fj(a[pos]), "b[pos]": fj(b[pos]), "epsilon": fj(eps), "max_relative": fj(rel), "observation": d})))
        }),
        classes: vec![],
        bounds: json!({"values": "Piecewise<Poly2>, Piecewise<IntOfLogPoly4>, Piecewise<Log<Poly1>> with n pieces and PolyN of length n, every n from 8 to 80 (160 thorough) and 100, 129, 257", "pairs": "one number perturbed (inside / outside the 1e-3 tolerances) at every position in turn, every tolerance"}),
    };
    // the same object on both sides (aliasing) with special values: the relation must still be the number-by-number one
    let alias = Phase {
        name: "same-object-on-both-sides",
        units: 3,
        split: 0,
        body: Box::new(move |unit, cx| {
            let n = 1 + cx.choose(6);
            let mut a = base(if unit == 1 { n * 4 } else { n });
            let pos = cx.choose(a.len());
            a[pos] = [1.5, f64::INFINITY, f64::NEG_INFINITY, f64::NAN, 0.0, f64::MAX][cx.choose(6)];
            let eps = *cx.pick(&EPS);
            let rel = *cx.pick(&REL);
            cx.nontrivial();
            cx.evals(2);
            let (abs, re) = match unit {
                0 => { let x = PolyN(a.clone()); let xr = &x; guard(|| (xr.abs_diff_eq(xr, eps), xr.relative_eq(xr, eps, rel))) }
                1 => { let x = pw_from_nums::<Poly2>(&a); let xr = &x; guard(|| (xr.abs_diff_eq(xr, eps), xr.relative_eq(xr, eps, rel))) }
                _ => { let mut v = a.clone(); v.resize(6, 2.0); let x = IntOfLogPoly4::from_nums(&v); a = v; let xr = &x; guard(|| (xr.abs_diff_eq(xr, eps), xr.relative_eq(xr, eps, rel))) }
            }.map_err(|p| Fail::new(format!("approx comparison panicked: {p}"), json!({"numbers": fjs(&a)})))?;
            let want = oracle(&a, &a, eps, rel);
            if cx.sampling() {
                cx.sample(json!({"kind": unit, "numbers": fjs(&a)}));
            }
            if (abs, re) != want {
                return Err(Fail::new("comparing a value with itself (same object) is not the number-by-number relation", json!({"kind": (["PolyN", "Piecewise<Poly2>", "IntOfLogPoly4"][unit]), "numbers": fjs(&a), "epsilon": fj(eps), "max_relative": fj(rel), "got(abs,rel)": [abs, re], "number-by-number(abs,rel)": [want.0, want.1]})));
            }
            Ok(())
        }),
        classes: vec![],
        bounds: json!({"values": "PolyN (1..6 coefficients), Piecewise<Poly2> (1..6 pieces), IntOfLogPoly4 with one number replaced by {1.5, +inf, -inf, NaN, 0, MAX}", "comparison": "x.abs_diff_eq(&x) / x.relative_eq(&x) through the same reference"}),
    };
    let lengths = Phase {
        name: "different-lengths",
        units: 5 * 5,
        split: 0,
        body: Box::new(move |unit, cx| {
            let (la, lb) = (unit / 5, unit % 5);
            let eps = *cx.pick(&EPS);
            let rel = *cx.pick(&REL);
            let kind = cx.choose(4);
            cx.evals(4);
            if la != lb {
                cx.nontrivial();
            }
            if kind == 3 {
                // PolyN: the longer operand is the shorter one followed by zeros (the same polynomial as a function, another value):
                // whatever == says about them, == must imply the approximate relations, and those compare number by number
                let (x, y) = (PolyN(base(la.min(lb))), PolyN({ let mut v = base(la.min(lb)); v.resize(la.max(lb), if cx.flag() { 0.0 } else { -0.0 }); v }));
                let r = guard(|| (x == y, y == x, x.abs_diff_eq(&y, eps), y.abs_diff_eq(&x, eps), x.relative_eq(&y, eps, rel), y.relative_eq(&x, eps, rel)));
                return match r {
                    Err(p) => Err(Fail::new(format!("comparison panicked: {p}"), json!({"len_a": la, "len_b": lb}))),
                    Ok((e1, e2, a1, a2, r1, r2)) => {
                        let want = la == lb;
                        if (a1, a2, r1, r2) != (want, want, want, want) {
                            Err(Fail::new("PolyN values with different numbers of coefficients compare approximately equal (or identical ones do not)", json!({"len_a": la.min(lb), "len_b": la.max(lb), "results": [a1, a2, r1, r2]})))
                        } else if (e1 || e2) && !(a1 && r1) {
                            Err(Fail::new("PolyN: a == b but not approximately equal (== must imply both relations)", json!({"a": fjs(&x.0), "b": fjs(&y.0), "a==b": e1, "b==a": e2, "abs_diff_eq": a1, "relative_eq": r1})))
                        } else if e1 != e2 {
                            Err(Fail::new("PolyN: == is not symmetric", json!({"a": fjs(&x.0), "b": fjs(&y.0)})))
                        } else {
                            Ok(())
                        }
                    }
                };
            }
            let r: Result<(bool, bool, bool, bool), String> = match kind {
                0 => {
                    let (x, y) = (PolyN(base(la)), PolyN(base(lb)));
                    guard(|| (x.abs_diff_eq(&y, eps), y.abs_diff_eq(&x, eps), x.relative_eq(&y, eps, rel), y.relative_eq(&x, eps, rel)))
                }
                1 => {
                    if la > 3 || lb > 3 { return Ok(()); }
                    let (x, y) = (pw_from_nums::<Poly2>(&base(la * 4)), pw_from_nums::<Poly2>(&base(lb * 4)));
                    guard(|| (x.abs_diff_eq(&y, eps), y.abs_diff_eq(&x, eps), x.relative_eq(&y, eps, rel), y.relative_eq(&x, eps, rel)))
                }
                _ => {
                    if la > 3 || lb > 3 { return Ok(()); }
                    let (x, y) = (pw_from_nums::<IntOfLogPoly4>(&base(la * 7)), pw_from_nums::<IntOfLogPoly4>(&base(lb * 7)));
                    guard(|| (x.abs_diff_eq(&y, eps), y.abs_diff_eq(&x, eps), x.relative_eq(&y, eps, rel), y.relative_eq(&x, eps, rel)))
                }
            };
            let want = la == lb;
            match r {
                Err(p) => Err(Fail::new(format!("approx comparison panicked: {p}"), json!({"len_a": la, "len_b": lb}))),
                Ok((a1, a2, r1, r2)) => {
                    // equal lengths: identical contents -> must hold; different lengths: never approximately equal
                    if (a1, a2, r1, r2) == (want, want, want, want) {
                        Ok(())
                    } else {
                        Err(Fail::new(
                            if want { "identical values are not approximately equal" } else { "values with different numbers of pieces / coefficients compare approximately equal" },
                            json!({"kind": (["PolyN", "Piecewise<Poly2>", "Piecewise<IntOfLogPoly4>"][kind]), "len_a": la, "len_b": lb, "epsilon": fj(eps), "max_relative": fj(rel), "results": [a1, a2, r1, r2]}),
                        ))
                    }
                }
            }
        }),
        classes: vec![],
        bounds: json!({"pairs": "PolyN of lengths 0..4 x 0..4 (unrelated contents, and the shorter one padded with +0 / -0 coefficients, with == consulted); Piecewise<Poly2>, Piecewise<IntOfLogPoly4> with 0..3 x 0..3 pieces (one a prefix of the other), every tolerance incl. +inf"}),
    };
    // differences that sit exactly on a tolerance: |a-b| equal to the rounded product max(|a|,|b|)*max_relative (and its two
    // neighbours), for tolerances that are not powers of two, and |a-b| equal to epsilon (and its neighbours)
    let cs4 = cs.clone();
    let boundary = Phase {
        name: "differences-on-the-tolerance",
        units: n,
        split: 1,
        body: Box::new(move |unit, cx| {
            let c = &cs4[unit];
            if c.n == 0 {
                return Ok(());
            }
            const AV: [f64; 10] = [10.0, 1000.0, 1e6, 3.0, 7.0, 0.1, 1e-3, 123.456, -10.0, -0.7];
            const TOL: [f64; 9] = [0.3, 0.7, 0.1, 1e-6, 1e-3, 0.9, 1.5, 2.5, 1e-9];
            let lane = cx.choose(c.n);
            let av = AV[cx.choose(AV.len())];
            let tol = TOL[cx.choose(TOL.len())];
            let relative = cx.flag();
            let d = if relative { av.abs() * tol } else { tol };
            // the other number below / above in magnitude; for the relative case with b the larger one, solve b - a = b*tol
            let centre = match cx.choose(if relative && tol < 1.0 { 3 } else { 2 }) {
                0 => av - d,
                1 => av + d,
                _ => av / (1.0 - tol),
            };
            let bv = match cx.choose(5) {
                0 => centre,
                1 => exact::pred(centre),
                2 => exact::succ(centre),
                3 => exact::pred(exact::pred(centre)),
                _ => exact::succ(exact::succ(centre)),
            };
            let (eps, rel) = if relative { ([0.0, f64::EPSILON, 1e-12][cx.choose(3)], tol) } else { (tol, [0.0, f64::EPSILON][cx.choose(2)]) };
            let mut a = base(c.n);
            let mut b = a.clone();
            a[lane] = av;
            b[lane] = bv;
            if cx.flag() {
                std::mem::swap(&mut a, &mut b);
            }
            cx.nontrivial();
            cx.evals(5);
            if cx.sampling() {
                cx.sample(json!({"type": c.ty, "position": lane, "a": fj(a[lane]), "b": fj(b[lane]), "epsilon": fj(eps), "max_relative": fj(rel)}));
            }
            match (c.run)(&a, &b, eps, rel) {
                Ok((abs, re)) => {
                    cx.class(abs as usize);
                    cx.class(2 + re as usize);
                    Ok(())
                }
                Err((what, d)) => Err(Fail::new(what, json!({"position": lane, "a[position]": fj(a[lane]), "b[position]": fj(b[lane]), "epsilon": fj(eps), "max_relative": fj(rel), "observation": d}))),
            }
        }),
        classes: vec![("abs_diff_eq_false", true), ("abs_diff_eq_true", true), ("relative_eq_false", true), ("relative_eq_true", true)],
        bounds: json!({"types": "every type implementing the approx traits", "position": "every number position in turn",
            "pairs": "a in {10,1000,1e6,3,7,0.1,1e-3,123.456,-10,-0.7}; b = a -+ |a|*t, a/(1-t) (relative) or a -+ t (absolute), each also 1 and 2 ulps either side; t in {0.3,0.7,0.1,1e-6,1e-3,0.9,1.5,2.5,1e-9}; both argument orders",
            "tolerances": "relative: max_relative = t with epsilon in {0, EPSILON, 1e-12}; absolute: epsilon = t with max_relative in {0, EPSILON}"}),
    };
    // the same special value in one position of both operands, and a small / large perturbation in another position:
    // a special case made for one number must not change how the other numbers are compared
    let cs5 = cs.clone();
    let special2 = Phase {
        name: "special-value-in-one-position-perturbation-in-another",
        units: n,
        split: 1,
        body: Box::new(move |unit, cx| {
            let c = &cs5[unit];
            if c.n < 2 {
                return Ok(());
            }
            let i = cx.choose(c.n);
            let j = (i + 1 + cx.choose(c.n - 1)) % c.n;
            let sv = [f64::INFINITY, f64::NEG_INFINITY, f64::NAN, f64::MAX, 0.0, -0.0, 5e-324][cx.choose(7)];
            let a0 = base(c.n);
            let mut a = a0.clone();
            let mut b = a0.clone();
            a[i] = sv;
            b[i] = sv;
            b[j] = a0[j] * PERT[cx.choose(3)];
            let eps = *cx.pick(&EPS);
            let rel = *cx.pick(&REL);
            cx.nontrivial();
            cx.evals(5);
            if cx.sampling() {
                cx.sample(json!({"type": c.ty, "a": fjs(&a), "b": fjs(&b), "epsilon": fj(eps), "max_relative": fj(rel)}));
            }
            (c.run)(&a, &b, eps, rel).map(|_| ()).map_err(|(what, d)| Fail::new(what, json!({"a": fjs(&a), "b": fjs(&b), "epsilon": fj(eps), "max_relative": fj(rel), "observation": d})))
        }),
        classes: vec![],
        bounds: json!({"types": "every type implementing the approx traits with at least two numbers", "pairs": "position i (every) holds the same value from {+inf,-inf,NaN,MAX,0,-0.0,5e-324} in both operands; position j != i (every) is equal, perturbed inside or perturbed outside the 1e-3 tolerances", "tolerances": "every epsilon x max_relative"}),
    };
    // tolerances below the resolution of the numbers: a max_relative under f64::EPSILON and a subnormal epsilon are still
    // tolerances (one-ulp neighbours with a high mantissa are within 1.2e-16 relative; 0 and 5e-324 are within 1e-320)
    let cs6 = cs.clone();
    let tiny = Phase {
        name: "tolerances-below-the-resolution",
        units: n,
        split: 1,
        body: Box::new(move |unit, cx| {
            let c = &cs6[unit];
            if c.n == 0 {
                return Ok(());
            }
            const AV: [f64; 9] = [1.9, 1.0, -1.75, 1234.5678, 0.0, -0.0, 3e-310, 2.5e-308, -7.99];
            const TEPS: [f64; 8] = [0.0, 5e-324, 1e-320, 1e-310, f64::MIN_POSITIVE, 1e-300, 1e-16, 4.5e-16];
            const TREL: [f64; 8] = [0.0, 5e-324, 1.2e-16, 1.6e-16, 2.1e-16, f64::EPSILON, 4e-16, 1e-15];
            let lane = cx.choose(c.n);
            let av = AV[cx.choose(AV.len())];
            let mut bv = av;
            let k = 1 + cx.choose(3);
            let up = cx.flag();
            for _ in 0..k {
                bv = if up { exact::succ(bv) } else { exact::pred(bv) };
            }
            let eps = TEPS[cx.choose(TEPS.len())];
            let rel = TREL[cx.choose(TREL.len())];
            let mut a = base(c.n);
            let mut b = a.clone();
            a[lane] = av;
            b[lane] = bv;
            if cx.flag() {
                std::mem::swap(&mut a, &mut b);
            }
            cx.nontrivial();
            cx.evals(5);
            if cx.sampling() {
                cx.sample(json!({"type": c.ty, "position": lane, "a": fj(a[lane]), "b": fj(b[lane]), "epsilon": fj(eps), "max_relative": fj(rel)}));
            }
            match (c.run)(&a, &b, eps, rel) {
                Ok((abs, re)) => {
                    cx.class(abs as usize);
                    cx.class(2 + re as usize);
                    Ok(())
                }
                Err((what, d)) => Err(Fail::new(what, json!({"position": lane, "a[position]": fj(a[lane]), "b[position]": fj(b[lane]), "epsilon": fj(eps), "max_relative": fj(rel), "observation": d}))),
            }
        }),
        classes: vec![("abs_diff_eq_false", true), ("abs_diff_eq_true", true), ("relative_eq_false", true), ("relative_eq_true", true)],
        bounds: json!({"types": "every type implementing the approx traits", "position": "every number position in turn",
            "pairs": "a in {1.9,1,-1.75,1234.5678,0,-0.0,3e-310,2.5e-308,-7.99}; b = a moved 1, 2 or 3 ulps up or down; both argument orders",
            "tolerances": "epsilon in {0,5e-324,1e-320,1e-310,MIN_POSITIVE,1e-300,1e-16,4.5e-16} x max_relative in {0,5e-324,1.2e-16,1.6e-16,2.1e-16,EPSILON,4e-16,1e-15}"}),
    };
    let mut extra = serde_json::Map::new();
    extra.insert("approx_types".into(), json!(names));
    Check {
        id: "C17",
        rule: "choice tree: type (unit) x perturbation per number x epsilon x max_relative; each leaf calls the real abs_diff_eq / relative_eq in both argument orders and ==; non-trivial = at least one number perturbed / special value / different lengths".into(),
        assumptions: vec!["approx's own f64 impls are the per-number reference".into()],
        phases: vec![perturb, special, lengths, big, alias, boundary, special2, tiny],
        extra,
        controls: vec![],
    }
}
