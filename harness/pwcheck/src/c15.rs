//! C15 — scalar operations on segments and piecewise functions preserve breakpoints and act
//! on every piece exactly as the piece-level operator.
use crate::c14::{LANE_ID, SCALARS};
use crate::common::*;
use serde_json::{json, Value};
use std::ops::{Mul, MulAssign, Neg};
use std::sync::Arc;
use xplore::*;

thread_local! {
    /// allocation history of the operand handed to the operators (common::with_slack), set by the phase body
    static SLACK: std::cell::Cell<usize> = const { std::cell::Cell::new(0) };
}
fn sl<T: Clone>(f: &Piecewise<T>) -> Piecewise<T> {
    pw_with_slack(f, SLACK.with(|c| c.get()))
}
type Run = Box<dyn Fn(&[f64], f64) -> Result<(), (String, Value)> + Send + Sync>;
pub struct PwCase {
    pub ty: String,
    pub op: &'static str,
    pub positive_only: bool,
    pub scalar: bool,
    pub run: Run,
}

thread_local! {
    /// how neighbouring pieces are related (set by the phase body): 0 unrelated; 1 every piece the previous one times the scalar
    /// of the operation; 2 every piece the negated previous one (adjacent pieces that are each other's image under the operator)
    static RELATED: std::cell::Cell<(usize, f64)> = const { std::cell::Cell::new((0, 1.0)) };
}
fn build<T: Nums>(ends: &[f64]) -> Piecewise<T> {
    let (mode, s) = RELATED.with(|c| c.get());
    let geometric = mode == 1 && s.is_finite() && s != 0.0 && s.abs() >= 0.1 && s.abs() <= 7.0;
    Piecewise {
        segments: ends
            .iter()
            .enumerate()
            .map(|(i, &e)| {
                let nums: Vec<f64> = if geometric && ends.len() <= 12 {
                    LANE_ID.iter().map(|v| v * s.powi(i as i32)).collect()
                } else if mode == 2 {
                    LANE_ID.iter().map(|v| if i % 2 == 0 { *v } else { -*v }).collect()
                } else {
                    LANE_ID.iter().map(|v| v * (1.0 + 0.5 * (i % 13) as f64) - 0.125 * (i % 7) as f64).collect()
                };
                Segment { end: e, poly: T::from_nums(&nums) }
            })
            .collect(),
    }
}

/// structure + value-level comparison of an operated piecewise function against the piece-level operator
fn compare<T: Nums + Evaluate>(what: &str, res: &Piecewise<T>, src_ends: &[f64], want: &[T]) -> Result<(), (String, Value)> {
    let re: Vec<f64> = res.segments.iter().map(|s| s.end).collect();
    if res.segments.len() != src_ends.len() {
        return Err((format!("{what}: number of pieces changed"), json!({"result_ends": fjs(&re)})));
    }
    if !all_bits_eq(&re, src_ends) {
        return Err((format!("{what}: a breakpoint (or the order of pieces) changed"), json!({"result_ends": fjs(&re)})));
    }
    for (i, s) in res.segments.iter().enumerate() {
        if !all_bits_eq(&s.poly.nums(), &want[i].nums()) {
            return Err((
                format!("{what}: a piece is not the piece-level operator applied to the source piece"),
                json!({"piece": i, "got": fjs(&s.poly.nums()), "expected": fjs(&want[i].nums())}),
            ));
        }
    }
    // value level, both sides of every breakpoint: the piecewise value is the operated piece's own value
    // (long functions: structure only, the value level adds nothing once every piece and end is bit-identical)
    // (end lists that are not non-decreasing, or hold a NaN: which piece an argument selects is not defined by C02; structure only)
    if src_ends.len() > 40 || src_ends.windows(2).any(|w| !(w[0] <= w[1])) || src_ends.iter().any(|e| e.is_nan()) {
        return Ok(());
    }
    for x in order_alphabet(src_ends) {
        let i = ref_index(src_ends, x);
        let got = res.evaluate(x);
        let exp = want[i].evaluate(x);
        if got.to_bits() != exp.to_bits() {
            return Err((format!("{what}: value at x is not the operated piece's value"), json!({"x": fj(x), "reference_piece": i, "got": fj(got), "expected": fj(exp)})));
        }
    }
    Ok(())
}

fn pw_mul<T>(ty: String) -> PwCase
where
    T: Nums + Evaluate + Mul<f64, Output = T> + Copy + Send + Sync + PartialEq + std::fmt::Debug,
{
    PwCase {
        ty, op: "Piecewise * s , Segment * s", positive_only: false, scalar: true,
        run: Box::new(|ends, s| {
            let f = build::<T>(ends);
            let want: Vec<T> = f.segments.iter().map(|g| g.poly * s).collect();
            let r = guard(|| sl(&f) * s).map_err(|p| (format!("Piecewise `*` panicked: {p}"), json!(p)))?;
            compare("Piecewise * s", &r, ends, &want)?;
            let segs = guard(|| f.segments.iter().map(|g| *g * s).collect::<Vec<_>>()).map_err(|p| (format!("Segment `*` panicked: {p}"), json!(p)))?;
            compare("Segment * s", &Piecewise { segments: segs }, ends, &want)
        }),
    }
}
fn pw_mul_assign<T>(ty: String) -> PwCase
where
    T: Nums + Evaluate + MulAssign<f64> + Copy + Send + Sync + PartialEq + std::fmt::Debug + Translate,
{
    PwCase {
        ty, op: "Piecewise *= s , Segment *= s , (&mut Segment) *= s", positive_only: false, scalar: true,
        run: Box::new(|ends, s| {
            let f = build::<T>(ends);
            let want: Vec<T> = f.segments.iter().map(|g| { let mut p = g.poly; p *= s; p }).collect();
            let mut r = sl(&f);
            guard(|| r *= s).map_err(|p| (format!("Piecewise `*=` panicked: {p}"), json!(p)))?;
            compare("Piecewise *= s", &r, ends, &want)?;
            let mut r2 = f.clone();
            guard(|| for g in r2.segments.iter_mut() { *g *= s; }).map_err(|p| (format!("Segment `*=` panicked: {p}"), json!(p)))?;
            compare("Segment *= s", &r2, ends, &want)?;
            let mut r3 = f.clone();
            guard(|| for g in r3.segments.iter_mut() { let mut h: &mut Segment<T> = g; h *= s; }).map_err(|p| (format!("(&mut Segment) `*=` panicked: {p}"), json!(p)))?;
            compare("(&mut Segment) *= s", &r3, ends, &want)
        }),
    }
}
fn pw_neg<T>(ty: String) -> PwCase
where
    T: Nums + Evaluate + Neg<Output = T> + Copy + Send + Sync + PartialEq + std::fmt::Debug,
{
    PwCase {
        ty, op: "-Piecewise", positive_only: false, scalar: false,
        run: Box::new(|ends, _s| {
            let f = build::<T>(ends);
            let want: Vec<T> = f.segments.iter().map(|g| -g.poly).collect();
            let r = guard(|| -sl(&f)).map_err(|p| (format!("Piecewise neg panicked: {p}"), json!(p)))?;
            compare("-Piecewise", &r, ends, &want)
        }),
    }
}
fn pw_translate<T>(ty: String) -> PwCase
where
    T: Nums + Evaluate + Translate + Copy + Send + Sync + PartialEq + std::fmt::Debug,
{
    PwCase {
        ty, op: "Piecewise::translate , Segment::translate", positive_only: false, scalar: true,
        run: Box::new(|ends, s| {
            let f = build::<T>(ends);
            let want: Vec<T> = f.segments.iter().map(|g| { let mut p = g.poly; p.translate(s); p }).collect();
            let mut r = sl(&f);
            guard(|| r.translate(s)).map_err(|p| (format!("Piecewise::translate panicked: {p}"), json!(p)))?;
            compare("Piecewise::translate", &r, ends, &want)?;
            let mut r2 = f.clone();
            guard(|| for g in r2.segments.iter_mut() { g.translate(s); }).map_err(|p| (format!("Segment::translate panicked: {p}"), json!(p)))?;
            compare("Segment::translate", &r2, ends, &want)
        }),
    }
}

pub fn cases() -> Vec<PwCase> {
    let mut v = vec![];
    macro_rules! poly { ($($t:ident),*) => {$(
        let n = stringify!($t).to_string();
        v.push(pw_mul::<$t>(n.clone())); v.push(pw_mul_assign::<$t>(n.clone())); v.push(pw_neg::<$t>(n.clone())); v.push(pw_translate::<$t>(n.clone()));
        let n = format!("Log<{}>", stringify!($t));
        v.push(pw_mul::<Log<$t>>(n.clone())); v.push(pw_mul_assign::<Log<$t>>(n.clone())); v.push(pw_translate::<Log<$t>>(n.clone()));
        let n = format!("IntOfLog<{}>", stringify!($t));
        v.push(pw_mul::<IntOfLog<$t>>(n.clone())); v.push(pw_mul_assign::<IntOfLog<$t>>(n.clone())); v.push(pw_neg::<IntOfLog<$t>>(n.clone())); v.push(pw_translate::<IntOfLog<$t>>(n.clone()));
    )*}; }
    poly!(Poly0, Poly1, Poly2, Poly3, Poly4, Poly5, Poly6, Poly7, Poly8);
    let n = "IntOfLogPoly4".to_string();
    v.push(pw_mul::<IntOfLogPoly4>(n.clone()));
    v.push(pw_neg::<IntOfLogPoly4>(n.clone()));
    v.push(pw_translate::<IntOfLogPoly4>(n));
    v
}

pub fn check(thorough: bool, _seed: u64) -> Check {
    let cs = Arc::new(cases());
    let names: Vec<String> = cs.iter().map(|c| format!("{}: {}", c.ty, c.op)).collect();
    let mut sh = shapes(&[1.0, 2.0, 3.0, 4.0], if thorough { 5 } else { 4 });
    sh.extend(shapes(&[0.5, 2.0, f64::INFINITY], 3));
    sh.extend(shapes(&[-1.0, -0.0, 0.0, 5e-324], 3));
    for n in [6usize, 9] {
        let mut e: Vec<f64> = (1..=n).map(|i| i as f64).collect();
        sh.push(e.clone());
        e[n / 2] = e[n / 2 - 1];
        e[n - 1] = e[n - 2];
        sh.push(e);
    }
    // strictly increasing breakpoints closer together than machine epsilon, and tiny-domain functions
    sh.push(vec![1.0, exact::succ(1.0), exact::succ(exact::succ(1.0))]);
    sh.push(vec![1e-18, 2e-18, 3e-18]);
    sh.push(vec![-3e-300, -2e-300, 5e-324, 1e-300]);
    // the property is stated for all piecewise functions: end lists in any order (every sequence of length 2..4 over {1,2,3}
    // that is not non-decreasing), and lists holding NaN / -inf ends; the operators must leave those bit-identical too
    let ordered = sh.len();
    {
        let vals = [1.0, 2.0, 3.0];
        for len in 2..=4usize {
            for code in 0..3usize.pow(len as u32) {
                let e: Vec<f64> = (0..len).map(|i| vals[(code / 3usize.pow(i as u32)) % 3]).collect();
                if e.windows(2).any(|w| w[0] > w[1]) {
                    sh.push(e);
                }
            }
        }
        sh.push(vec![0.6947, 0.6844, 0.7268]);
        sh.push(vec![2.0, exact::pred(2.0)]);
        sh.push(vec![1.0, 0.0, -0.0, 0.0]);
        sh.push(vec![f64::INFINITY, 1.0, f64::NEG_INFINITY]);
        sh.push(vec![f64::NAN]);
        sh.push(vec![1.0, f64::NAN, 0.5]);
        sh.push(vec![f64::NAN, 2.0, f64::from_bits(0x7ff8_0000_0000_0001), 1.0]);
        sh.push((0..9).map(|i| (9 - i) as f64).collect());
        sh.push((0..12).map(|i| ((i * 7) % 12) as f64).collect());
    }
    let unordered = sh.len() - ordered;
    let sh = Arc::new(sh);
    let n = cs.len();
    let cs2 = cs.clone();
    // every number of pieces up to 520 (block / strip sizes of chunked implementations depend on size_of::<Segment<T>>())
    let cs3 = cs.clone();
    let lens = Phase {
        name: "every-number-of-pieces",
        units: n,
        split: 1,
        body: Box::new(move |unit, cx| {
            let c = &cs3[unit];
            // block / strip sizes depend on size_of::<Segment<T>>() = 8*(1+N): Poly0..Poly8 and IntOfLog<Poly8> cover every size that occurs
            let full = !c.ty.contains('<') || c.ty == "IntOfLog<Poly8>";
            let k = cx.choose(if full { (if thorough { 3260 } else { 1610 }) + 6 } else { 160 });
            let len = if !full { 41 + k } else if k < 6 { [32768usize, 65536, 65537, 70003, 131074, 100001][k] } else { 41 + k - 6 };
            let ends: Vec<f64> = (0..len).map(|i| 0.5 + i as f64 * 0.25).collect();
            let s = if c.scalar { [-2.5, 1.0000000000000002][cx.choose(2)] } else { 0.0 };
            SLACK.with(|m| m.set(if k % 3 == 0 { 1 } else if k % 3 == 1 { 2 } else { 0 }));
            RELATED.with(|m| m.set((if k % 5 == 4 { 2 } else { 0 }, s)));
            cx.nontrivial();
            cx.evals(1);
            if cx.sampling() {
                cx.sample(json!({"case": format!("{}: {}", c.ty, c.op), "pieces": len, "scalar": s}));
            }
            (c.run)(&ends, s).map_err(|(what, d)| Fail::new(format!("{}: {}", c.ty, what), json!({"pieces": len, "ends": "0.5 + i/4", "scalar": fj(s), "observation": d})))
        }),
        classes: vec![],
        bounds: json!({"cases": "every (piece type, operator group) case", "pieces": if thorough {"Poly0..Poly8, IntOfLog<Poly8> (every Segment size that occurs): every number of pieces from 41 to 3300, and 32768, 65536, 65537, 70003, 100001, 131074; other piece types 41..200"} else {"Poly0..Poly8, IntOfLog<Poly8> (every Segment size that occurs): every number of pieces from 41 to 1650, and 32768, 65536, 65537, 70003, 100001, 131074; other piece types 41..200"}, "scalars": "-2.5 and succ(1)", "comparison": "structure (number of pieces, every end and every number of every piece on bits)"}),
    };
    let ph = Phase {
        name: "segment-and-piecewise-operators",
        units: n,
        split: 1,
        body: Box::new(move |unit, cx| {
            let c = &cs2[unit];
            let ends = cx.pick(&sh[..]).clone();
            let s = if c.scalar { *cx.pick(&SCALARS) } else { 0.0 };
            let slack = cx.choose(SLACK_MODES);
            SLACK.with(|m| m.set(slack));
            let rel = cx.choose(3);
            RELATED.with(|m| m.set((rel, s)));
            if ends.len() >= 2 {
                cx.nontrivial();
            }
            cx.evals(1);
            if cx.sampling() {
                cx.sample(json!({"case": format!("{}: {}", c.ty, c.op), "ends": fjs(&ends), "scalar": s}));
            }
            (c.run)(&ends, s).map_err(|(what, d)| Fail::new(format!("{}: {}", c.ty, what), json!({"ends": fjs(&ends), "scalar": fj(s), "observation": d})))
        }),
        classes: vec![],
        bounds: json!({"cases": "every operator on Segment / Piecewise for every piece type it exists for (list under operator_cases)",
            "shapes": format!("end lists of length 1..{} over {{1..4}}, 1..3 over {{0.5,2,+inf}} and over {{-1,-0.0,+0.0,5e-324}}; 1..n for n=6,9 plain and with duplicate runs; breakpoints one ulp apart; tiny-domain lists (1e-18 scale, 1e-300 scale); plus {} end lists that are not non-decreasing or hold NaN / infinite ends (every sequence of length 2..4 over {{1,2,3}} with a descent, descending and shuffled lists of 9 and 12, NaN ends with two payloads) - structure level only", if thorough {5} else {4}, unordered),
            "scalars": "{0,-0.0,1,-1,2,0.1,1e-300,1e300}", "relation between neighbouring pieces": "unrelated; each piece the previous one times the scalar of the operation (exact powers for scalars 2, 0.1.. up to 12 pieces); each piece the negated previous one", "allocation history of the operand": "tight; spare capacity > length and > 4096 bytes; truncated from a vector 700 longer; grown by push; one spare slot", "value level": "every x of A(ends) through the real Piecewise::evaluate, compared on bits with the operated piece's own evaluate"}),
    };
    let mut extra = serde_json::Map::new();
    extra.insert("operator_cases".into(), json!(names));
    Check {
        id: "C15",
        rule: "choice tree: (piece type, operator group) unit x shape x scalar; each leaf applies the real Segment/Piecewise operators once and evaluates the result at every x of A(ends); non-trivial = function with >=2 pieces".into(),
        assumptions: vec!["the piece-level operator is the reference (decided separately by C14)".into()],
        phases: vec![ph, lens],
        extra,
        controls: vec![],
    }
}
