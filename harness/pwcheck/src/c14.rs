//! C14 — scaling, negation, addition, subtraction and translation of function forms act
//! number by number (bitwise against the IEEE primitive) and therefore pointwise.
use crate::common::*;
use serde_json::{json, Value};
use std::ops::{Add, Mul, MulAssign, Neg};
use std::sync::Arc;
use xplore::*;

pub const SCALARS: [f64; 19] = [
    0.0, -0.0, 1.0, -1.0, 2.0, 0.1, 1e-300, 1e300,
    1.0000000000000002, 0.9999999999999999, 1.00000000000025, -0.9999999999999, 1e5, 3e6, 1e-5, 1e-9,
    // small odd whole numbers and a value that is exact in single precision with a full 24-bit significand
    3.0, 7.0, 0.699999988079071,
];
const CUBE: [f64; 3] = [0.0, 1.0, -2.5];
// (the last three are exactly representable in f32: a full 24-bit significand, the largest odd f32 integer, f32::MAX)
const SWEEP: [f64; 7] = [-0.0, 1e-300, 1e300, 5e-324, 0.699999988079071, 16777215.0, 3.4028234663852886e38];
pub const LANE_ID: [f64; 10] = [1.5, -2.25, 3.125, -4.0625, 5.5, -6.75, 7.875, -8.9375, 9.96875, -10.984375];

/// value-level view of a form: evaluation arguments and a majorant of the magnitudes of its terms
pub trait ValueLevel: Evaluate {
    fn args() -> &'static [f64];
    fn major(&self, x: f64) -> f64;
}
fn poly_major(c: &[f64], x: f64) -> f64 {
    c.iter().enumerate().map(|(i, c)| c.abs() * x.abs().powi(i as i32)).sum()
}
macro_rules! vl_poly {
    ($($t:ty),*) => {$(
        impl ValueLevel for $t {
            fn args() -> &'static [f64] { &[-2.5, 0.3, 7.0] }
            fn major(&self, x: f64) -> f64 { poly_major(&self.nums(), x) }
        }
        impl ValueLevel for Log<$t> {
            fn args() -> &'static [f64] { &[0.5, 2.0, 7.0] }
            fn major(&self, v: f64) -> f64 { poly_major(&self.0.nums(), v.ln()) }
        }
        impl ValueLevel for IntOfLog<$t> {
            fn args() -> &'static [f64] { &[0.5, 2.0, 7.0] }
            fn major(&self, v: f64) -> f64 { self.k.abs() + v.max(1.0) * poly_major(&self.poly.nums(), v.ln()) }
        }
    )*};
}
vl_poly!(Poly0, Poly1, Poly2, Poly3, Poly4, Poly5, Poly6, Poly7, Poly8);
impl ValueLevel for IntOfLogPoly4 {
    fn args() -> &'static [f64] {
        &[0.5, 2.0, 7.0]
    }
    fn major(&self, v: f64) -> f64 {
        let x = -v.ln();
        let r = exact::series_r(x).to_f64().abs();
        self.k.abs() + v * (0..4).map(|j| self.coeffs[j].abs() * x.abs().powi(j as i32 + 1)).sum::<f64>() + self.u.abs() * v * x.abs().powi(5) * r
    }
}

type Run = Box<dyn Fn(&[f64], &[f64], f64) -> Result<(), (String, Value)> + Send + Sync>;
pub struct OpCase {
    pub ty: String,
    pub op: &'static str,
    pub n: usize,
    pub binary: bool,
    pub scalar: bool,
    pub run: Run,
}

/// The IEEE-754 primitives (round to nearest even, gradual underflow) computed in integer arithmetic: the expected numbers
/// must not depend on the floating-point mode the CPU is in when the operator runs (the ambient pass changes what the
/// thread did before, and a library that leaves the CPU in flush-to-zero mode would otherwise fool oracle and subject alike).
pub fn pm(a: f64, b: f64) -> f64 {
    if fin(a) && fin(b) { exact::soft_mul(a, b) } else { a * b }
}
pub fn pa(a: f64, b: f64) -> f64 {
    if fin(a) && fin(b) { exact::soft_add(a, b) } else { a + b }
}
pub fn ps(a: f64, b: f64) -> f64 {
    if fin(a) && fin(b) { exact::soft_sub(a, b) } else { a - b }
}
fn fin(x: f64) -> bool {
    (x.to_bits() >> 52) & 0x7ff != 0x7ff
}

fn cmp_nums(what: &str, got: &[f64], want: &[f64]) -> Result<(), (String, Value)> {
    if all_bits_eq(got, want) {
        Ok(())
    } else {
        let lane = got.iter().zip(want).position(|(a, b)| a.to_bits() != b.to_bits());
        Err((what.to_string(), json!({"got": fjs(got), "expected(IEEE primitive per number)": fjs(want), "first_differing_number": lane})))
    }
}
fn close(what: &str, got: f64, want: f64, tol: f64, x: f64) -> Result<(), (String, Value)> {
    // absolute slack of the smallest normal number: products that underflow are outside the property
    // ... and of terms within a factor 1e14 of the overflow threshold (tolerance above 1e280): there a correctly working
    // evaluation may overflow in an intermediate sum, which the property does not exclude
    if !want.is_finite() || !tol.is_finite() || tol > 1e280 || (got - want).abs() <= tol + f64::MIN_POSITIVE {
        Ok(())
    } else {
        Err((what.to_string(), json!({"x": fj(x), "got": fj(got), "expected": fj(want), "tolerance": tol})))
    }
}
const VT: f64 = 1.4210854715202004e-14; // 2^-46: evaluation bound (<= 44*2^-53) plus one rounding per coefficient, with margin

fn mul_case<T>(ty: String) -> OpCase
where
    T: Nums + Mul<f64, Output = T> + Copy + ValueLevel,
{
    OpCase {
        ty, op: "Mul<f64>", n: T::N, binary: false, scalar: true,
        run: Box::new(|a, _b, s| {
            let f = T::from_nums(a);
            let r = guard(|| f * s).map_err(|p| (format!("`*` panicked: {p}"), json!(p)))?;
            let want: Vec<f64> = a.iter().map(|&c| pm(c, s)).collect();
            cmp_nums("f * s is not the correctly rounded s*c number by number", &r.nums(), &want)?;
            // (value level only when every resulting number is finite: a product or sum that overflows makes the function itself infinite)
            if want.iter().any(|w| !w.is_finite()) {
                return Ok(());
            }
            for &x in T::args() {
                close("(f*s)(x) != s*f(x)", r.evaluate(x), s * f.evaluate(x), VT * s.abs() * f.major(x), x)?;
            }
            Ok(())
        }),
    }
}
fn mul_assign_case<T>(ty: String) -> OpCase
where
    T: Nums + MulAssign<f64> + Copy,
{
    OpCase {
        ty, op: "MulAssign<f64>", n: T::N, binary: false, scalar: true,
        run: Box::new(|a, _b, s| {
            let mut f = T::from_nums(a);
            guard(|| f *= s).map_err(|p| (format!("`*=` panicked: {p}"), json!(p)))?;
            let want: Vec<f64> = a.iter().map(|&c| pm(c, s)).collect();
            cmp_nums("f *= s does not give the correctly rounded s*c number by number (the result of `*`)", &f.nums(), &want)
        }),
    }
}
fn neg_case<T>(ty: String) -> OpCase
where
    T: Nums + Neg<Output = T> + Copy + ValueLevel,
{
    OpCase {
        ty, op: "Neg", n: T::N, binary: false, scalar: false,
        run: Box::new(|a, _b, _s| {
            let f = T::from_nums(a);
            let r = guard(|| -f).map_err(|p| (format!("neg panicked: {p}"), json!(p)))?;
            let want: Vec<f64> = a.iter().map(|c| -c).collect();
            cmp_nums("-f is not -c number by number", &r.nums(), &want)?;
            // (value level only when every resulting number is finite: a product or sum that overflows makes the function itself infinite)
            if want.iter().any(|w| !w.is_finite()) {
                return Ok(());
            }
            for &x in T::args() {
                close("(-f)(x) != -f(x)", r.evaluate(x), -f.evaluate(x), VT * f.major(x), x)?;
            }
            Ok(())
        }),
    }
}
fn add_case<T>(ty: String) -> OpCase
where
    T: Nums + Add<Output = T> + Copy + ValueLevel,
{
    OpCase {
        ty, op: "Add", n: T::N, binary: true, scalar: false,
        run: Box::new(|a, b, _s| {
            let (f, g) = (T::from_nums(a), T::from_nums(b));
            let r = guard(|| f + g).map_err(|p| (format!("`+` panicked: {p}"), json!(p)))?;
            let want: Vec<f64> = a.iter().zip(b).map(|(&x, &y)| pa(x, y)).collect();
            cmp_nums("f1 + f2 is not the correctly rounded c1+c2 number by number", &r.nums(), &want)?;
            // (value level only when every resulting number is finite: a product or sum that overflows makes the function itself infinite)
            if want.iter().any(|w| !w.is_finite()) {
                return Ok(());
            }
            for &x in T::args() {
                close("(f1+f2)(x) != f1(x)+f2(x)", r.evaluate(x), f.evaluate(x) + g.evaluate(x), VT * (f.major(x) + g.major(x)), x)?;
            }
            Ok(())
        }),
    }
}
fn translate_case<T>(ty: String) -> OpCase
where
    T: Nums + Translate + Copy + ValueLevel,
{
    OpCase {
        ty, op: "Translate", n: T::N, binary: false, scalar: true,
        run: Box::new(|a, _b, s| {
            let f = T::from_nums(a);
            let mut r = f;
            guard(|| r.translate(s)).map_err(|p| (format!("translate panicked: {p}"), json!(p)))?;
            let mut want = a.to_vec();
            want[0] = pa(a[0], s); // the additive constant is number 0 of every form (coefficient 0, or k)
            cmp_nums("translate(c) must add c to the additive constant and change nothing else", &r.nums(), &want)?;
            // (value level only when every resulting number is finite: a product or sum that overflows makes the function itself infinite)
            if want.iter().any(|w| !w.is_finite()) {
                return Ok(());
            }
            for &x in T::args() {
                close("translate(c) does not raise the value by c", r.evaluate(x), f.evaluate(x) + s, VT * (f.major(x) + s.abs()), x)?;
            }
            Ok(())
        }),
    }
}
fn q4_ref_case(sub: bool) -> OpCase {
    OpCase {
        ty: "IntOfLogPoly4".into(), op: if sub { "&a - &b" } else { "&a + &b" }, n: 6, binary: true, scalar: false,
        run: Box::new(move |a, b, _s| {
            let (f, g) = (IntOfLogPoly4::from_nums(a), IntOfLogPoly4::from_nums(b));
            let r = guard(|| if sub { &f - &g } else { &f + &g }).map_err(|p| (format!("reference operator panicked: {p}"), json!(p)))?;
            let want: Vec<f64> = a.iter().zip(b).map(|(&x, &y)| if sub { ps(x, y) } else { pa(x, y) }).collect();
            cmp_nums("reference +/- on IntOfLogPoly4 is not number by number", &r.nums(), &want)?;
            if all_bits_eq(a, b) {
                // the same object on both sides (&f + &f, as a piecewise function added to itself does piece by piece)
                let r2 = guard(|| if sub { &f - &f } else { &f + &f }).map_err(|p| (format!("reference operator with the same object on both sides panicked: {p}"), json!(p)))?;
                cmp_nums("reference +/- on IntOfLogPoly4 with the same object on both sides is not number by number", &r2.nums(), &want)?;
            }
            Ok(())
        }),
    }
}
fn q4_sub_case() -> OpCase {
    OpCase {
        ty: "IntOfLogPoly4".into(), op: "Sub", n: 6, binary: true, scalar: false,
        run: Box::new(|a, b, _s| {
            let (f, g) = (IntOfLogPoly4::from_nums(a), IntOfLogPoly4::from_nums(b));
            let r = guard(|| f - g).map_err(|p| (format!("`-` panicked: {p}"), json!(p)))?;
            let want: Vec<f64> = a.iter().zip(b).map(|(&x, &y)| ps(x, y)).collect();
            cmp_nums("f1 - f2 is not the correctly rounded c1-c2 number by number", &r.nums(), &want)?;
            // (value level only when every resulting number is finite: a product or sum that overflows makes the function itself infinite)
            if want.iter().any(|w| !w.is_finite()) {
                return Ok(());
            }
            for &x in IntOfLogPoly4::args() {
                close("(f1-f2)(x) != f1(x)-f2(x)", r.evaluate(x), f.evaluate(x) - g.evaluate(x), VT * (f.major(x) + g.major(x)), x)?;
            }
            Ok(())
        }),
    }
}
fn polyn_translate_case(len: usize) -> OpCase {
    OpCase {
        ty: format!("PolyN(len {len})"), op: "Translate", n: len, binary: false, scalar: true,
        run: Box::new(move |a, _b, s| {
            let want = if a.is_empty() { vec![s] } else { let mut w = a.to_vec(); w[0] = pa(a[0], s); w };
            // every allocation history of the coefficient vector (tight, spare capacity, truncated, grown by push, one spare slot)
            for m in 0..SLACK_MODES {
                let mut r = PolyN(with_slack(a, m));
                guard(|| r.translate(s)).map_err(|p| (format!("translate panicked: {p}"), json!(p)))?;
                cmp_nums("PolyN::translate(c) must add c to coefficient 0 (empty polynomial becomes [c])", &r.0, &want)?;
            }
            Ok(())
        }),
    }
}

pub fn cases() -> Vec<OpCase> {
    let mut v = vec![];
    macro_rules! poly { ($($t:ident),*) => {$(
        let n = stringify!($t).to_string();
        v.push(mul_case::<$t>(n.clone())); v.push(mul_assign_case::<$t>(n.clone())); v.push(neg_case::<$t>(n.clone()));
        v.push(add_case::<$t>(n.clone())); v.push(translate_case::<$t>(n.clone()));
        let n = format!("Log<{}>", stringify!($t));
        v.push(mul_case::<Log<$t>>(n.clone())); v.push(mul_assign_case::<Log<$t>>(n.clone())); v.push(translate_case::<Log<$t>>(n.clone()));
        let n = format!("IntOfLog<{}>", stringify!($t));
        v.push(add_case::<IntOfLog<$t>>(n.clone())); v.push(mul_case::<IntOfLog<$t>>(n.clone())); v.push(mul_assign_case::<IntOfLog<$t>>(n.clone()));
        v.push(neg_case::<IntOfLog<$t>>(n.clone())); v.push(translate_case::<IntOfLog<$t>>(n.clone()));
    )*}; }
    poly!(Poly0, Poly1, Poly2, Poly3, Poly4, Poly5, Poly6, Poly7, Poly8);
    let n = "IntOfLogPoly4".to_string();
    v.push(add_case::<IntOfLogPoly4>(n.clone()));
    v.push(q4_ref_case(false));
    v.push(neg_case::<IntOfLogPoly4>(n.clone()));
    v.push(mul_case::<IntOfLogPoly4>(n.clone()));
    v.push(q4_sub_case());
    v.push(q4_ref_case(true));
    v.push(translate_case::<IntOfLogPoly4>(n));
    for len in (0..=12).chain([16, 17, 32, 33, 40]) {
        v.push(polyn_translate_case(len));
    }
    v
}

fn lane_id(i: usize) -> f64 {
    LANE_ID[i % LANE_ID.len()] + (i / LANE_ID.len()) as f64 * 16.0
}
/// operand vectors for n numbers: lane identifier, cube over {0,1,-2.5}, per-lane sweeps
fn operand(cx: &mut Cx, n: usize, cube_cap: usize) -> Vec<f64> {
    match cx.choose(3) {
        0 => (0..n).map(lane_id).collect(),
        1 => {
            // cube on the first cube_cap lanes, lane identifier beyond
            (0..n).map(|i| if i < cube_cap { CUBE[cx.choose(3)] } else { lane_id(i) }).collect()
        }
        _ => {
            if n == 0 {
                return vec![];
            }
            let lane = cx.choose(n);
            let val = SWEEP[cx.choose(SWEEP.len())];
            let mut v: Vec<f64> = (0..n).map(lane_id).collect();
            v[lane] = val;
            v
        }
    }
}

pub fn check(thorough: bool, _seed: u64) -> Check {
    let cs = Arc::new(cases());
    let names: Vec<String> = cs.iter().map(|c| format!("{} {}", c.ty, c.op)).collect();
    let n = cs.len();
    let cs2 = cs.clone();
    let ph = Phase {
        name: "operator-impls",
        units: n,
        split: 2,
        body: Box::new(move |unit, cx| {
            let c = &cs2[unit];
            let cap = if thorough { 10 } else { 7 };
            let a = operand(cx, c.n, cap);
            let b = if c.binary {
                match cx.choose(8) {
                    0 => (0..c.n).map(|i| -lane_id(i) * 0.5).collect(),
                    1 => vec![1.0; c.n],
                    2 => (0..c.n).map(|i| if i % 2 == 0 { -0.0 } else { 1e300 }).collect(),
                    3 => a.iter().map(|v| -v).collect::<Vec<f64>>(),
                    // near-coincident operands: identical, one ulp apart in every number, one ulp apart in one number
                    4 => a.clone(),
                    5 => a.iter().map(|v| exact::succ(*v)).collect(),
                    6 => a.iter().map(|v| -exact::pred(*v)).collect(),
                    _ => {
                        let lane = cx.choose(c.n.max(1));
                        a.iter().enumerate().map(|(i, v)| if i == lane { exact::succ(*v) } else { *v }).collect()
                    }
                }
            } else {
                vec![]
            };
            // scalars: the alphabet, or values tied to the operand's additive constant (exact / one-ulp-off cancellation)
            let s = if c.scalar {
                let k = cx.choose(SCALARS.len() + 4);
                if k < SCALARS.len() {
                    SCALARS[k]
                } else {
                    let a0 = a.first().cloned().unwrap_or(1.0);
                    [-a0, -exact::succ(a0), -exact::pred(a0), -(a0 + 2.0 * exact::ulp(a0))][k - SCALARS.len()]
                }
            } else {
                0.0
            };
            // scalar operators: one number of the operand (first or last) moved to the overflow boundary of this scalar - the largest
            // magnitude whose product with s is still finite, and its two neighbours
            let mut a = a;
            if c.scalar && s.abs() > 1.0 && s.is_finite() && !a.is_empty() {
                let v = cx.choose(4);
                if v > 0 {
                    let mut bnd = f64::MAX / s.abs();
                    if !pm(bnd, s.abs()).is_finite() {
                        bnd = exact::pred(bnd);
                    }
                    let lane = if cx.flag() { 0 } else { a.len() - 1 };
                    a[lane] = [bnd, -exact::pred(bnd), exact::succ(bnd)][v - 1];
                }
            }
            if a.iter().filter(|v| **v != 0.0).count() >= 2 {
                cx.nontrivial();
            }
            cx.evals(1);
            if cx.sampling() {
                cx.sample(json!({"impl": format!("{} {}", c.ty, c.op), "operand": a, "second_operand": b, "scalar": s}));
            }
            (c.run)(&a, &b, s).map_err(|(what, d)| Fail::new(format!("{} {}: {}", c.ty, c.op, what), json!({"operand": fjs(&a), "second_operand": fjs(&b), "scalar": fj(s), "observation": d})))
        }),
        classes: vec![],
        bounds: json!({"impls": "every operator implementation of every form (list under operator_impls)",
            "operands": format!("lane-identifier vector; cube over {{0,1,-2.5}} on the first {} numbers; every single number swept through {{-0.0,1e-300,1e300,5e-324}}", if thorough {10} else {7}),
            "overflow boundary": "for scalars of magnitude above 1: the first or last number set to the largest magnitude whose product with s is finite, its predecessor (negated) and its successor", "scalars": "{0,-0.0,1,-1,2,0.1,1e-300,1e300,succ(1),pred(1),1+2.5e-13,-1+1e-13,1e5,3e6,1e-5,1e-9,3,7,0.7f32} and, relative to the operand's additive constant c0: -c0, -succ(c0), -pred(c0), -(c0+2ulp)", "second operands": "8 vectors incl. the negated first operand (exact cancellation), the operand itself, copies one ulp apart in every / in one number, and a -0.0/1e300 pattern",
            "oracle": "IEEE primitive on each number, compared on bits; value level through the real evaluate at 3 arguments"}),
    };
    // pairs of full-mantissa numbers of every relative size (inexact sums and products whichever operand is the larger):
    // one number of the operand and the scalar / the matching number of the second operand
    let cs3 = cs.clone();
    let ph2 = Phase {
        name: "full-mantissa-pairs",
        units: n,
        split: 1,
        body: Box::new(move |unit, cx| {
            let c = &cs3[unit];
            if c.n == 0 || !(c.scalar || c.binary) {
                return Ok(());
            }
            const FM: [f64; 14] = [0.1, 0.3, 1.0 / 3.0, 2.0 / 3.0, 0.7, -0.3, 123456.789, -3.3333333333333335e-8, 1.0, 9007199254740994.0, 1.4285714285714286e21, 3.3e-5, -0.1, 1e-17];
            let lane = cx.choose(c.n);
            let mut a: Vec<f64> = (0..c.n).map(lane_id).collect();
            a[lane] = FM[cx.choose(FM.len())];
            let o = FM[cx.choose(FM.len())];
            let mut b = vec![];
            if c.binary {
                b = (0..c.n).map(|i| -lane_id(i) * 0.5).collect();
                b[lane] = o;
            }
            cx.nontrivial();
            cx.evals(1);
            if cx.sampling() {
                cx.sample(json!({"impl": format!("{} {}", c.ty, c.op), "operand": a, "second_operand": b, "scalar": o}));
            }
            (c.run)(&a, &b, o).map_err(|(what, d)| Fail::new(format!("{} {}: {}", c.ty, c.op, what), json!({"operand": fjs(&a), "second_operand": fjs(&b), "scalar": fj(o), "observation": d})))
        }),
        classes: vec![],
        bounds: json!({"impls": "every scalar and binary operator implementation", "operands": "lane-identifier vector with one number (every position) from F = {0.1,0.3,1/3,2/3,0.7,-0.3,123456.789,-1e-7/3,1,2^53+2,1e22/7,3.3e-5,-0.1,1e-17}",
            "scalars / second operand": "the scalar, or the same position of the second operand, from F (all 196 ordered pairs)"}),
    };
    let mut extra = serde_json::Map::new();
    extra.insert("operator_impls".into(), json!(names));
    extra.insert("operator_impl_count".into(), json!(n));
    Check {
        id: "C14",
        rule: "choice tree: operator implementation (unit) x operand vector x (second operand | scalar); each leaf applies one real operator impl once; non-trivial = operand with >=2 non-zero numbers".into(),
        assumptions: vec!["Nums visitor lists every f64 of a form in a fixed order (additive constant first)".into()],
        phases: vec![ph, ph2],
        extra,
        controls: vec![],
    }
}
