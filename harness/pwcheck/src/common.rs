#![allow(dead_code)]
//! Shared harness types: probe pieces, number visitors, builders.
pub use piecewise_polynomial::*;
use std::ops::{Add, Sub};

/// Harness piece whose value identifies both the piece and the argument it was evaluated at.
#[derive(Clone, Copy, Debug, PartialEq)]
pub struct Probe(pub u32);
impl Evaluate for Probe {
    #[inline]
    fn evaluate(&self, x: f64) -> f64 {
        let mix = x.to_bits().wrapping_mul(0x9E37_79B9_7F4A_7C15) >> 12;
        f64::from_bits(((0x400 + self.0 as u64) << 52) | (mix & ((1u64 << 52) - 1)))
    }
}
pub fn probe_pw(ends: &[f64]) -> Piecewise<Probe> {
    Piecewise { segments: ends.iter().enumerate().map(|(i, &e)| Segment { end: e, poly: Probe(i as u32) }).collect() }
}
/// real linear pieces with pairwise different coefficients
pub fn poly1_pw(ends: &[f64]) -> Piecewise<Poly1> {
    Piecewise {
        segments: ends.iter().enumerate().map(|(i, &e)| Segment { end: e, poly: Poly1([1000.0 * (i as f64 + 1.0), 0.5 + i as f64]) }).collect(),
    }
}
pub fn poly3_pw(ends: &[f64]) -> Piecewise<Poly3> {
    Piecewise {
        segments: ends
            .iter()
            .enumerate()
            .map(|(i, &e)| Segment { end: e, poly: Poly3([10.0 * (i as f64 + 1.0), -0.5 - i as f64, 0.25 * (i as f64 + 1.0), 0.125]) })
            .collect(),
    }
}
pub fn logpoly8_pw(ends: &[f64]) -> Piecewise<Log<Poly8>> {
    Piecewise {
        segments: ends
            .iter()
            .enumerate()
            .map(|(i, &e)| {
                let k = i as f64 + 1.0;
                Segment { end: e, poly: Log(Poly8([k, -0.5 * k, 0.25, 0.125 * k, -0.0625, 0.03, 0.01 * k, -0.002, 0.001 * k])) }
            })
            .collect(),
    }
}

/// Symbolic provenance piece for the merges: `l` = which piece of the left operand, `r` = which piece
/// of the right operand (positive: combined by +, negative: combined by -), 0 = not combined yet.
#[derive(Clone, Copy, Debug, PartialEq)]
pub struct Sym {
    pub l: i32,
    pub r: i32,
}
impl<'a, 'b> Add<&'b Sym> for &'a Sym {
    type Output = Sym;
    fn add(self, o: &'b Sym) -> Sym {
        Sym { l: self.l, r: o.l }
    }
}
impl<'a, 'b> Sub<&'b Sym> for &'a Sym {
    type Output = Sym;
    fn sub(self, o: &'b Sym) -> Sym {
        Sym { l: self.l, r: -o.l }
    }
}
pub fn sym_pw(ends: &[f64]) -> Piecewise<Sym> {
    Piecewise { segments: ends.iter().enumerate().map(|(i, &e)| Segment { end: e, poly: Sym { l: i as i32 + 1, r: 0 } }).collect() }
}

pub fn bits_eq(a: f64, b: f64) -> bool {
    a.to_bits() == b.to_bits()
}

/// Every f64 of a value in a fixed order, and reconstruction from such a list.
pub trait Nums: Sized {
    const N: usize;
    const NAME: &'static str;
    fn nums(&self) -> Vec<f64>;
    fn from_nums(v: &[f64]) -> Self;
}
macro_rules! nums_poly {
    ($t:ident, $n:expr) => {
        impl Nums for $t {
            const N: usize = $n;
            const NAME: &'static str = stringify!($t);
            fn nums(&self) -> Vec<f64> {
                self.0.to_vec()
            }
            fn from_nums(v: &[f64]) -> Self {
                let mut a = [0.0; $n];
                a.copy_from_slice(&v[..$n]);
                $t(a)
            }
        }
    };
}
impl Nums for Poly0 {
    const N: usize = 1;
    const NAME: &'static str = "Poly0";
    fn nums(&self) -> Vec<f64> {
        vec![self.0]
    }
    fn from_nums(v: &[f64]) -> Self {
        Poly0(v[0])
    }
}
nums_poly!(Poly1, 2);
nums_poly!(Poly2, 3);
nums_poly!(Poly3, 4);
nums_poly!(Poly4, 5);
nums_poly!(Poly5, 6);
nums_poly!(Poly6, 7);
nums_poly!(Poly7, 8);
nums_poly!(Poly8, 9);
impl<T: Nums> Nums for Log<T> {
    const N: usize = T::N;
    const NAME: &'static str = "Log";
    fn nums(&self) -> Vec<f64> {
        self.0.nums()
    }
    fn from_nums(v: &[f64]) -> Self {
        Log(T::from_nums(v))
    }
}
impl<T: Nums> Nums for IntOfLog<T> {
    const N: usize = T::N + 1;
    const NAME: &'static str = "IntOfLog";
    fn nums(&self) -> Vec<f64> {
        let mut v = vec![self.k];
        v.extend(self.poly.nums());
        v
    }
    fn from_nums(v: &[f64]) -> Self {
        IntOfLog { k: v[0], poly: T::from_nums(&v[1..]) }
    }
}
impl Nums for IntOfLogPoly4 {
    const N: usize = 6;
    const NAME: &'static str = "IntOfLogPoly4";
    fn nums(&self) -> Vec<f64> {
        vec![self.k, self.coeffs[0], self.coeffs[1], self.coeffs[2], self.coeffs[3], self.u]
    }
    fn from_nums(v: &[f64]) -> Self {
        IntOfLogPoly4 { k: v[0], coeffs: [v[1], v[2], v[3], v[4]], u: v[5] }
    }
}
impl Nums for Knot {
    const N: usize = 2;
    const NAME: &'static str = "Knot";
    fn nums(&self) -> Vec<f64> {
        vec![self.x, self.y]
    }
    fn from_nums(v: &[f64]) -> Self {
        Knot { x: v[0], y: v[1] }
    }
}
impl<T: Nums> Nums for Segment<T> {
    const N: usize = T::N + 1;
    const NAME: &'static str = "Segment";
    fn nums(&self) -> Vec<f64> {
        let mut v = vec![self.end];
        v.extend(self.poly.nums());
        v
    }
    fn from_nums(v: &[f64]) -> Self {
        Segment { end: v[0], poly: T::from_nums(&v[1..]) }
    }
}
pub fn type_name<T>() -> String {
    std::any::type_name::<T>().replace("piecewise_polynomial::poly::", "").replace("piecewise_polynomial::log_poly::", "").replace("piecewise_polynomial::piecewise::", "")
}
pub fn pw_nums<T: Nums>(p: &Piecewise<T>) -> Vec<f64> {
    p.segments.iter().flat_map(|s| s.nums()).collect()
}
pub fn pw_from_nums<T: Nums>(v: &[f64]) -> Piecewise<T> {
    Piecewise { segments: v.chunks(T::N + 1).map(|c| Segment::<T>::from_nums(c)).collect() }
}
pub fn all_bits_eq(a: &[f64], b: &[f64]) -> bool {
    a.len() == b.len() && a.iter().zip(b).all(|(x, y)| x.to_bits() == y.to_bits())
}

/// dispatch a generic function on the fixed-degree polynomial type of a given degree
#[macro_export]
macro_rules! by_degree {
    ($d:expr, $f:ident ( $($args:expr),* )) => {
        match $d {
            0 => $f::<Poly0>($($args),*),
            1 => $f::<Poly1>($($args),*),
            2 => $f::<Poly2>($($args),*),
            3 => $f::<Poly3>($($args),*),
            4 => $f::<Poly4>($($args),*),
            5 => $f::<Poly5>($($args),*),
            6 => $f::<Poly6>($($args),*),
            7 => $f::<Poly7>($($args),*),
            8 => $f::<Poly8>($($args),*),
            _ => unreachable!("degree"),
        }
    };
}
/// the same for degrees 0..=7 (the forms that have an integral)
#[macro_export]
macro_rules! by_degree7 {
    ($d:expr, $f:ident ( $($args:expr),* )) => {
        match $d {
            0 => $f::<Poly0>($($args),*),
            1 => $f::<Poly1>($($args),*),
            2 => $f::<Poly2>($($args),*),
            3 => $f::<Poly3>($($args),*),
            4 => $f::<Poly4>($($args),*),
            5 => $f::<Poly5>($($args),*),
            6 => $f::<Poly6>($($args),*),
            7 => $f::<Poly7>($($args),*),
            _ => unreachable!("degree"),
        }
    };
}

/// Rust literal for an f64 (bit exact)
pub fn lit(x: f64) -> String {
    format!("f64::from_bits({:#018x}) /* {:e} */", x.to_bits(), x)
}
/// self-contained test (public API only) rebuilding a probe function over `ends`; `body` uses `pw` and `ends`
pub fn repro(ends: &[f64], body: &str) -> String {
    let e: Vec<String> = ends.iter().map(|x| lit(*x)).collect();
    format!(
        "use piecewise_polynomial::*;\n#[test]\nfn replay() {{\n    let ends = [{}];\n    // piece i is the constant i\n    let pw = Piecewise {{ segments: ends.iter().enumerate().map(|(i, &e)| Segment {{ end: e, poly: Poly0(i as f64) }}).collect::<Vec<_>>() }};\n{}\n}}\n",
        e.join(", "),
        body
    )
}

/// The same elements in a vector with a different allocation history (what `==`, `Debug` and evaluation cannot see):
/// 0 tight; 1 spare capacity larger than the length and than 4096 bytes; 2 truncated from a vector 700 elements longer;
/// 3 grown by push; 4 one spare slot
pub const SLACK_MODES: usize = 5;
pub fn with_slack<T: Clone>(v: &[T], mode: usize) -> Vec<T> {
    match mode {
        0 => v.to_vec(),
        1 => {
            let mut w = Vec::with_capacity(v.len() * 2 + 4096 / std::mem::size_of::<T>().max(1) + 9);
            w.extend_from_slice(v);
            w
        }
        2 => {
            let mut w = Vec::with_capacity(v.len() + 700);
            w.extend_from_slice(v);
            if let Some(x) = v.first() {
                for _ in 0..700 {
                    w.push(x.clone());
                }
            }
            w.truncate(v.len());
            w
        }
        3 => {
            let mut w = Vec::new();
            for x in v {
                w.push(x.clone());
            }
            w
        }
        _ => {
            let mut w = v.to_vec();
            w.reserve_exact(1);
            w
        }
    }
}
pub fn pw_with_slack<T: Clone>(f: &Piecewise<T>, mode: usize) -> Piecewise<T> {
    Piecewise { segments: with_slack(&f.segments, mode) }
}

/// A copy of a slice placed at an address that is 8 (mod 16) - where a slice embedded in another object, or on the stack, may
/// sit, and where a `Vec`'s buffer (16-aligned by the allocator) and its sub-slices of 16-byte elements never do.
/// (For element types of alignment <= 8 whose size is a multiple of 8.)
pub struct Placed<T: Copy> {
    buf: Vec<u64>,
    off: usize,
    len: usize,
    _p: std::marker::PhantomData<T>,
}
impl<T: Copy> Placed<T> {
    pub fn new(v: &[T]) -> Self {
        assert!(std::mem::align_of::<T>() <= 8 && std::mem::size_of::<T>() % 8 == 0);
        let words = v.len() * std::mem::size_of::<T>() / 8;
        let buf = vec![0u64; words + 3];
        let off = if (buf.as_ptr() as usize) % 16 == 8 { 0 } else { 1 };
        let mut p = Placed { buf, off, len: v.len(), _p: std::marker::PhantomData };
        let dst = unsafe { p.buf.as_mut_ptr().add(p.off) } as *mut T;
        for (i, x) in v.iter().enumerate() {
            unsafe { dst.add(i).write(*x) };
        }
        p
    }
    pub fn slice(&self) -> &[T] {
        let src = unsafe { self.buf.as_ptr().add(self.off) } as *const T;
        debug_assert!(self.len == 0 || (src as usize) % 16 == 8);
        unsafe { std::slice::from_raw_parts(src, self.len) }
    }
}
