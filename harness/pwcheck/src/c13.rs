//! C13 — piecewise + and - are pointwise on the merged breakpoints.
use crate::common::*;
use serde_json::json;
use std::sync::Arc;
use xplore::*;

/// coverage only (not an oracle): which merge situations a two-cursor walk over the inputs meets
fn situations(fe: &[f64], ge: &[f64], out: &mut [bool; 12]) {
    let (mut i, mut j) = (0usize, 0usize);
    let (im, jm) = (fe.len() - 1, ge.len() - 1);
    loop {
        let (al, bl) = (i >= im, j >= jm);
        let o = if fe[i] < ge[j] { 0 } else if fe[i] > ge[j] { 1 } else { 2 };
        out[o * 4 + (al as usize) * 2 + bl as usize] = true;
        match o {
            0 => {
                if al {
                    j += 1
                } else {
                    i += 1
                }
            }
            1 => {
                if bl {
                    i += 1
                } else {
                    j += 1
                }
            }
            _ => {
                i = im.min(i + 1);
                j = jm.min(j + 1);
            }
        }
        if al && bl {
            break;
        }
    }
}
const SIT: [&str; 12] = [
    "Less/a_mid/b_mid", "Less/a_mid/b_last", "Less/a_last/b_mid", "Less/a_last/b_last",
    "Greater/a_mid/b_mid", "Greater/a_mid/b_last", "Greater/a_last/b_mid", "Greater/a_last/b_last",
    "Equal/a_mid/b_mid", "Equal/a_mid/b_last", "Equal/a_last/b_mid", "Equal/a_last/b_last",
];

fn wellformed(res_ends: &[f64], fe: &[f64], ge: &[f64]) -> Result<(), String> {
    if res_ends.is_empty() {
        return Err("result has no segments".into());
    }
    if res_ends.windows(2).any(|w| !(w[0] <= w[1])) {
        return Err("result breakpoints are not non-decreasing".into());
    }
    if res_ends.len() > fe.len() + ge.len() - 1 {
        return Err(format!("result has {} pieces > len(f)+len(g)-1 = {}", res_ends.len(), fe.len() + ge.len() - 1));
    }
    for e in res_ends {
        if !fe.iter().chain(ge.iter()).any(|x| x.to_bits() == e.to_bits()) {
            return Err(format!("result breakpoint {e:e} is not a breakpoint of either operand (bitwise)"));
        }
    }
    Ok(())
}

fn sym_phase(name: &'static str, shapes_f: Vec<Vec<f64>>, bounds: serde_json::Value, req: bool) -> Phase {
    let sh = Arc::new(shapes_f);
    let n = sh.len();
    let sh2 = sh.clone();
    let mut classes: Vec<(&'static str, bool)> = vec![];
    for s in SIT {
        // "Less/a_last/b_last" and "Greater/a_last/b_last" cannot occur with a correct walk only if ...; they do occur (disjoint ranges)
        classes.push((s, req));
    }
    classes.push(("operands_with_different_end_sets", req));
    classes.push(("identical_operands", req));
    classes.push(("single_piece_operand", req));
    Phase {
        name,
        units: n * 2,
        body: Box::new(move |unit, cx| {
            let fe = &sh2[unit / 2];
            let sub = unit % 2 == 1;
            let ge = cx.pick(&sh2[..]).clone();
            let f = sym_pw(fe);
            let g = sym_pw(&ge);
            let mut all: Vec<f64> = fe.clone();
            all.extend(ge.iter());
            let alpha = order_alphabet(&all);
            let x = *cx.pick(&alpha);
            let mut sit = [false; 12];
            situations(fe, &ge, &mut sit);
            for (k, s) in sit.iter().enumerate() {
                if *s {
                    cx.class(k);
                }
            }
            let differ = fe != &ge;
            if differ {
                cx.class(12);
                cx.nontrivial();
            } else {
                cx.class(13);
            }
            if fe.len() == 1 || ge.len() == 1 {
                cx.class(14);
            }
            // identical end lists: also the same object on both sides (&f + &f)
            let alias = !differ && all_bits_eq(fe, &ge);
            let res = guard(|| if sub { &f - &g } else { &f + &g });
            if alias {
                let res2 = guard(|| if sub { &f - &f } else { &f + &f });
                let same = match (&res, &res2) {
                    (Ok(a), Ok(b)) => a.segments.len() == b.segments.len() && a.segments.iter().zip(&b.segments).all(|(p, q)| p.end.to_bits() == q.end.to_bits() && p.poly == q.poly),
                    (Err(_), Err(_)) => true,
                    _ => false,
                };
                if !same {
                    return Err(Fail::new(format!("piecewise {} with the same object on both sides differs from the result for an equal copy", if sub { "-" } else { "+" }), json!({"f_ends": fjs(fe)})));
                }
            }
            cx.evals(1);
            let op = if sub { "-" } else { "+" };
            let detail = |obs: serde_json::Value| json!({"f_ends": fjs(fe), "g_ends": fjs(&ge), "op": op, "x": fj(x), "observation": obs});
            if cx.sampling() {
                cx.sample(detail(json!("sample")));
            }
            let res = match res {
                Ok(r) => r,
                Err(p) => return Err(Fail::new(format!("piecewise {op} panicked on well-formed operands: {p}"), detail(json!(p)))),
            };
            let re: Vec<f64> = res.segments.iter().map(|s| s.end).collect();
            if let Err(e) = wellformed(&re, fe, &ge) {
                return Err(Fail::new(format!("piecewise {op}: {e}"), detail(json!({"result_ends": fjs(&re)}))));
            }
            let got = res.segments[ref_index(&re, x)].poly;
            let fi = ref_index(fe, x) as i32 + 1;
            let gi = ref_index(&ge, x) as i32 + 1;
            let want = Sym { l: fi, r: if sub { -gi } else { gi } };
            if got != want {
                return Err(Fail::new(
                    format!("piecewise {op} combines the wrong pieces at x"),
                    detail(json!({"result_ends": fjs(&re), "expected_pieces(f,g)": [want.l, want.r], "got_pieces(f,g)": [got.l, got.r],
                                  "result_provenance": res.segments.iter().map(|s| json!([s.poly.l, s.poly.r])).collect::<Vec<_>>() })),
                ));
            }
            Ok(())
        }),
        classes,
        bounds,
        split: 0,
    }
}

fn q4(i: usize, side: f64) -> IntOfLogPoly4 {
    let k = i as f64 + 1.0;
    IntOfLogPoly4 { k: side * k, coeffs: [0.5 * k, -0.25 * side, 0.125 * k, side], u: -k * 0.75 }
}
fn q4_pw(ends: &[f64], side: f64) -> Piecewise<IntOfLogPoly4> {
    Piecewise { segments: ends.iter().enumerate().map(|(i, &e)| Segment { end: e, poly: q4(i, side) }).collect() }
}
fn q4_terms(p: &IntOfLogPoly4, v: f64) -> f64 {
    let x = -v.ln();
    let r = exact::series_r(x).to_f64().abs();
    p.k.abs() + v * (0..4).map(|j| p.coeffs[j].abs() * x.abs().powi(j as i32 + 1)).sum::<f64>() + p.u.abs() * v * x.abs().powi(5) * r
}

fn numeric_phase(thorough: bool) -> Phase {
    let vals = [0.5, 1.0, 2.0, 7.5];
    let sh = Arc::new(shapes(&vals, if thorough { 4 } else { 3 }));
    let n = sh.len();
    Phase {
        name: "numeric-IntOfLogPoly4",
        units: n * 2,
        body: Box::new(move |unit, cx| {
            let fe = &sh[unit / 2];
            let sub = unit % 2 == 1;
            let ge = cx.pick(&sh[..]).clone();
            let f = q4_pw(fe, 1.0);
            let g = q4_pw(&ge, -1.5);
            let mut all = fe.clone();
            all.extend(ge.iter());
            let alpha: Vec<f64> = order_alphabet(&all).into_iter().filter(|&x| x > 0.0 && x < 1e300).collect();
            let x = *cx.pick(&alpha);
            let op = if sub { "-" } else { "+" };
            let detail = |obs: serde_json::Value| json!({"f_ends": fjs(fe), "g_ends": fjs(&ge), "op": op, "x": fj(x), "observation": obs});
            let res = match guard(|| if sub { &f - &g } else { &f + &g }) {
                Ok(r) => r,
                Err(p) => return Err(Fail::new(format!("piecewise {op} panicked: {p}"), detail(json!(p)))),
            };
            cx.evals(1);
            if fe != &ge {
                cx.nontrivial();
            }
            let re: Vec<f64> = res.segments.iter().map(|s| s.end).collect();
            if let Err(e) = wellformed(&re, fe, &ge) {
                return Err(Fail::new(format!("piecewise {op}: {e}"), detail(json!({"result_ends": fjs(&re)}))));
            }
            let a = f.segments[ref_index(fe, x)].poly;
            let b = g.segments[ref_index(&ge, x)].poly;
            let want = if sub { &a - &b } else { &a + &b };
            let got = res.segments[ref_index(&re, x)].poly;
            if !all_bits_eq(&got.nums(), &want.nums()) {
                return Err(Fail::new(
                    format!("piecewise {op}: the piece in force at x is not the piece-level {op} of the operands' pieces at x"),
                    detail(json!({"expected": fjs(&want.nums()), "got": fjs(&got.nums())})),
                ));
            }
            let (fx, gx, rx) = (f.evaluate(x), g.evaluate(x), res.evaluate(x));
            cx.evals(3);
            let exp = if sub { fx - gx } else { fx + gx };
            let tol = 2f64.powi(-40) * (q4_terms(&a, x) + q4_terms(&b, x));
            if !((rx - exp).abs() <= tol) {
                return Err(Fail::new(
                    format!("(f {op} g)(x) differs from f(x) {op} g(x) beyond rounding"),
                    detail(json!({"f(x)": fj(fx), "g(x)": fj(gx), "(f op g)(x)": fj(rx), "tolerance": tol})),
                ));
            }
            if cx.sampling() {
                cx.sample(detail(json!({"value": rx})));
            }
            Ok(())
        }),
        classes: vec![],
        split: 0,
        bounds: json!({"shapes": "pairs of end lists of length 1..3 (4 thorough) over {0.5,1,2,7.5}", "queries": "positive part of A(ends_f U ends_g)", "pieces": "IntOfLogPoly4 with pairwise different numbers"}),
    }
}

pub fn check(thorough: bool, _seed: u64) -> Check {
    let v5 = [1.0, 2.0, 3.0, 4.0, 5.0];
    let main = shapes(&v5, 5);
    let inf = shapes(&[f64::NEG_INFINITY, 1.0, 2.0, f64::INFINITY], 3);
    let nasty = shapes(&[f64::NEG_INFINITY, -f64::MAX, -0.0, 0.0, 5e-324, 1.0, exact::succ(1.0), f64::MAX, f64::INFINITY], if thorough { 3 } else { 2 });
    let mut phases = vec![
        sym_phase("provenance", main, json!({"operands": "every ordered pair of non-decreasing end lists of length 1..5 over {1..5}, both operators", "queries": "A(ends_f U ends_g)"}), true),
        sym_phase("provenance-infinite-ends", inf, json!({"operands": "every ordered pair of end lists of length 1..3 over {-inf,1,2,+inf}"}), false),
        sym_phase("provenance-nasty-ends", nasty, json!({"operands": "every ordered pair of end lists over {-inf,-MAX,-0.0,+0.0,5e-324,1,succ(1),MAX,+inf}"}), false),
        numeric_phase(thorough),
    ];
    {
        // long operands: 1..n and its even / odd / shifted sub-grids, n up to 9 (14 thorough)
        let mut long: Vec<Vec<f64>> = vec![];
        for n in [6usize, 7, 9, 17, 33].into_iter().chain(if thorough { vec![12usize, 14, 65, 129] } else { vec![] }) {
            let full: Vec<f64> = (1..=n).map(|i| i as f64).collect();
            long.push(full.clone());
            long.push(full.iter().cloned().filter(|v| (*v as usize) % 2 == 0).collect());
            long.push(full.iter().cloned().filter(|v| (*v as usize) % 2 == 1).collect());
            long.push(full.iter().map(|v| v + 0.5).collect());
            long.push(full[..n / 2].to_vec());
            long.push(vec![full[n - 1]]);
            let mut d = full.clone();
            d[n - 1] = d[n - 2];
            long.push(d);
        }
        // big operands around size thresholds (centred lists contain +0.0 / -0.0, variants with duplicate runs), paired with each other
        for e in big_shapes(false, if thorough { 129 } else { 65 }) {
            if e.len() >= 32 && e.len() != 34 && e.len() != 66 && (e.len() != 33 && e.len() != 65 || e.windows(2).all(|w| w[0] < w[1]) || e[e.len() / 2] == e[e.len() / 2 - 1]) {
                long.push(e);
            }
        }
        // every length 18..48 (the lists 1..n), paired with everything else in this phase
        for n in 18..=(if thorough { 70usize } else { 48 }) {
            if n != 33 {
                long.push((1..=n).map(|i| i as f64).collect());
            }
        }
        // aperiodic interleavings: the grid 1..n split between the operands by a bit pattern without a short period
        // (index arithmetic such as bitsets, blocks or strides behaves differently from one stretch of the result to the next)
        for n in [40usize, 70, 100].into_iter().chain(if thorough { vec![140usize, 200, 300] } else { vec![] }) {
            for (mul, add, md, lt) in [(1usize, 0usize, 3usize, 1usize), (7, 3, 11, 5), (5, 1, 13, 6)] {
                let pick = |i: usize| ((i * i * mul + i * add + i / 7) % md) < lt;
                let f: Vec<f64> = (1..=n).filter(|&i| pick(i)).map(|i| i as f64).collect();
                let g: Vec<f64> = (1..=n).filter(|&i| !pick(i)).map(|i| i as f64).collect();
                if !f.is_empty() && !g.is_empty() {
                    long.push(f);
                    long.push(g);
                }
            }
        }
        phases.push(sym_phase("provenance-long-operands", long, json!({"operands": "every ordered pair among 1..n (n=6,7,9,17,33; 12,14,65,129 thorough), its even / odd / half-shifted sub-grids, its first half, its last end alone, and a copy with a duplicated last end; the lists 1..n for every n from 18 to 48 (70 thorough); and the grids 1..40, 1..70, 1..100 (140, 200, 300 thorough) split between two operands by three aperiodic bit patterns"}), false));
    }
    if thorough {
        let v6 = shapes(&[1.0, 2.0, 3.0, 4.0, 5.0, 6.0], 6).into_iter().filter(|e| e.len() == 6 || e.len() <= 2).collect();
        phases.push(sym_phase("provenance-6-pieces", v6, json!({"operands": "pairs among end lists of length 6 and length 1..2 over {1..6}"}), false));
    }
    // the merges after a *rejected* call on the same thread: a documented rejection (NaN breakpoint) may panic, but it must not
    // leave anything behind that changes the next well-formed merge
    let small = Arc::new(shapes(&[1.0, 2.0, 3.0], 3));
    let nsm = small.len();
    let after_reject = Phase {
        name: "after-a-rejected-merge",
        units: nsm * 2,
        split: 0,
        body: Box::new(move |unit, cx| {
            let fe = &small[unit / 2];
            let sub = unit % 2 == 1;
            let ge = cx.pick(&small[..]).clone();
            // the rejected call: one of the operands gets a NaN breakpoint at position p; the panic (if any) is caught
            let which = cx.choose(3);
            let mut bad = sym_pw(&[1.0, 1.5, 2.5, 4.0]);
            let p = cx.choose(4);
            bad.segments[p].end = f64::NAN;
            let good = sym_pw(&[0.5, 1.5, 3.0]);
            let _ = match which {
                0 => guard(|| (&bad + &good).segments.len()),
                1 => guard(|| (&good - &bad).segments.len()),
                _ => guard(|| (&bad - &bad).segments.len()),
            };
            let f = sym_pw(fe);
            let g = sym_pw(&ge);
            let res = guard(|| if sub { &f - &g } else { &f + &g });
            cx.evals(2);
            cx.nontrivial();
            let op = if sub { "-" } else { "+" };
            let detail = |obs: serde_json::Value| json!({"preceded_by": "a merge with a NaN breakpoint (documented rejection, caught)", "f_ends": fjs(fe), "g_ends": fjs(&ge), "op": op, "observation": obs});
            if cx.sampling() {
                cx.sample(detail(json!("sample")));
            }
            let res = match res {
                Ok(r) => r,
                Err(pn) => return Err(Fail::new(format!("piecewise {op} panicked on well-formed operands after an earlier rejected call: {pn}"), detail(json!(pn)))),
            };
            let re: Vec<f64> = res.segments.iter().map(|s| s.end).collect();
            if let Err(e) = wellformed(&re, fe, &ge) {
                return Err(Fail::new(format!("piecewise {op} after an earlier rejected call: {e}"), detail(json!({"result_ends": fjs(&re)}))));
            }
            let mut all = fe.clone();
            all.extend(ge.iter());
            for x in order_alphabet(&all) {
                let got = res.segments[ref_index(&re, x)].poly;
                let gi = ref_index(&ge, x) as i32 + 1;
                let want = Sym { l: ref_index(fe, x) as i32 + 1, r: if sub { -gi } else { gi } };
                if got != want {
                    return Err(Fail::new(format!("piecewise {op} combines the wrong pieces at x after an earlier rejected call on the same thread"), detail(json!({"x": fj(x), "result_ends": fjs(&re)}))));
                }
            }
            Ok(())
        }),
        classes: vec![],
        bounds: json!({"sequence": "a + / - with a NaN breakpoint at every position of a 4-piece operand (caught), then every well-formed merge of end lists of length 1..3 over {1,2,3}, checked at every x of A(ends)"}),
    };
    phases.push(after_reject);
    // huge operands (integer widths of indices, recursion depth, parallel splits): checked at a few thousand probe points with a
    // binary-search reference (the ends are strictly increasing here, so first-end-greater-than-x is a partition point)
    let huge = Phase {
        name: "huge-operands",
        units: if thorough { 8 } else { 6 },
        split: 0,
        body: Box::new(move |unit, cx| {
            let mk = |n: usize, off: f64, step: f64| -> Vec<f64> { (0..n).map(|i| off + i as f64 * step).collect() };
            let (fe, ge): (Vec<f64>, Vec<f64>) = match unit {
                0 => (mk(70000, 0.5, 1.0), vec![1000.25, 30000.25, 65535.75, 69000.25]),
                1 => (vec![1000.25, 30000.25, 65535.75, 69000.25], mk(66000, 0.5, 1.0)),
                2 => (mk(70000, 0.5, 1.0), mk(66000, 0.25, 1.0)),
                3 => (mk(4000, 0.5, 1.0), mk(4000, 0.75, 1.0)),
                4 => (mk(30000, 0.5, 1.0), mk(30000, 0.75, 1.0)),
                5 => (mk(65537, 0.5, 1.0), vec![70000.0]),
                6 => (mk(131075, 0.5, 0.5), mk(131075, 0.25, 0.5)),
                _ => (mk(262147, 0.5, 0.25), vec![1.0, 65536.0]),
            };
            let sub = cx.flag();
            let f = sym_pw(&fe);
            let g = sym_pw(&ge);
            let res = guard(|| if sub { &f - &g } else { &f + &g });
            cx.evals(1);
            cx.nontrivial();
            let op = if sub { "-" } else { "+" };
            let detail = |obs: serde_json::Value| json!({"f": format!("{} pieces, ends {}..{}", fe.len(), fe[0], fe[fe.len() - 1]), "g": format!("{} pieces, ends {}..{}", ge.len(), ge[0], ge[ge.len() - 1]), "op": op, "observation": obs});
            if cx.sampling() {
                cx.sample(detail(json!("sample")));
            }
            let res = match res {
                Ok(r) => r,
                Err(pn) => return Err(Fail::new(format!("piecewise {op} panicked on huge well-formed operands: {pn}"), detail(json!(pn)))),
            };
            let re: Vec<f64> = res.segments.iter().map(|s| s.end).collect();
            if re.is_empty() || re.len() > fe.len() + ge.len() - 1 || re.windows(2).any(|w| !(w[0] <= w[1])) {
                return Err(Fail::new(format!("piecewise {op}: result is not well-formed (empty, too long or breakpoints not non-decreasing)"), detail(json!({"result_pieces": re.len()}))));
            }
            let idx = |e: &[f64], x: f64| -> usize { e.partition_point(|v| *v <= x).min(e.len() - 1) };
            // probe points: around the integer-width boundaries of the piece index, the first / last ends, and a stride through everything
            let mut probes: Vec<f64> = vec![f64::NEG_INFINITY, f64::INFINITY, fe[0], ge[0], fe[fe.len() - 1], ge[ge.len() - 1]];
            for e in [&fe, &ge] {
                for k in [255usize, 256, 257, 4095, 4096, 32767, 32768, 32769, 65534, 65535, 65536, 65537, 65538, 131071, 131072, 131073] {
                    if k < e.len() {
                        probes.extend([exact::pred(e[k]), e[k], exact::succ(e[k]), e[k] + 0.1]);
                    }
                }
                probes.extend(e.iter().step_by(e.len() / 700 + 1).flat_map(|&v| [v, v + 0.1]));
            }
            for x in probes {
                let got = res.segments[idx(&re, x)].poly;
                let gi = idx(&ge, x) as i32 + 1;
                let want = Sym { l: idx(&fe, x) as i32 + 1, r: if sub { -gi } else { gi } };
                if got != want {
                    return Err(Fail::new(format!("piecewise {op} combines the wrong pieces at x (huge operands)"), detail(json!({"x": fj(x), "expected_pieces(f,g)": [want.l, want.r], "got_pieces(f,g)": [got.l, got.r]}))));
                }
            }
            Ok(())
        }),
        classes: vec![],
        bounds: json!({"operands": "70000 x 4, 4 x 66000, 70000 x 66000 (shifted), 4000 x 4000 and 30000 x 30000 interleaved, 65537 x 1 (thorough also 131075 x 131075, 262147 x 2); both operators", "probes": "around piece indices 255..257, 4095, 4096, 32767..32769, 65534..65538, 131071..131073 of either operand, the extremes, and ~700 evenly spread breakpoints of each operand"}),
    };
    phases.push(huge);
    Check {
        id: "C13",
        rule: "choice tree: (left shape, operator) unit x right shape x query; pieces are symbolic provenance values so the result records which piece of f and of g were combined; each leaf is one (f, g, op, x) run on the real operators; non-trivial = operands with different end lists".into(),
        assumptions: vec!["reference indices of f and g at x by the plain first-end-greater-than-x loop".into(), "f64 tolerance 2^-40*sum|terms| for the numeric phase".into()],
        phases,
        extra: Default::default(),
        controls: vec![("swapped provenance must be rejected", Box::new(|| {
            // oracle only (never the subject's merge): at x = 1.7 the reference pieces of f = [1,2] and g = [1.5] are 2 and 1,
            // and the well-formedness predicate rejects a decreasing / foreign / over-long result
            let (fe, ge) = ([1.0, 2.0], [1.5]);
            let want = Sym { l: ref_index(&fe, 1.7) as i32 + 1, r: ref_index(&ge, 1.7) as i32 + 1 };
            if want != (Sym { l: 2, r: 1 }) { return Err("reference indices wrong".into()); }
            if wellformed(&[2.0, 1.5], &fe, &ge).is_ok() || wellformed(&[1.0, 1.7], &fe, &ge).is_ok() || wellformed(&[1.0, 1.5, 2.0], &fe, &ge).is_ok() || wellformed(&[1.0, 2.0], &fe, &ge).is_err() {
                return Err("well-formedness predicate is not live".into());
            }
            Ok(())
        }))],
    }
}
