//! C08 — differentiation yields the exact formal derivative, piece by piece.
use crate::common::*;
use exact::{dy, Dy};
use serde_json::json;
use std::sync::Arc;
use xplore::*;

const COEF: [f64; 8] = [0.0, 1.0, -1.0, 0.1, -0.3333333333333333, 7.25e5, 3.141592653589793, 1e-9];
const LANE_ID: [f64; 9] = [1.5, -2.25, 3.125, -4.0625, 5.5, -6.75, 7.875, -8.9375, 9.96875];
const XS: [f64; 4] = [-2.5, 0.3, 7.0, 0.0];

type Der<T> = <T as HasDerivative>::DerivativeOf;

fn leaf<T>(c: &[f64], cx: &mut Cx) -> Verdict
where
    T: Nums + HasDerivative + Copy,
    Der<T>: Nums + Evaluate,
{
    let n = c.len(); // degree n-1
    let p = T::from_nums(c);
    let detail = |obs: serde_json::Value| json!({"form": format!("Poly{}", n - 1), "coefficients": fjs(c), "observation": obs});
    let r = guard(|| {
        let d = p.derivative();
        let vals: Vec<f64> = XS.iter().map(|&x| d.evaluate(x)).collect();
        let seg = Segment { end: -0.0, poly: p }.derivative();
        (d.nums(), vals, seg.end, seg.poly.nums())
    });
    cx.evals(2 + XS.len() as u64);
    let (d, vals, send, sd) = match r {
        Ok(t) => t,
        Err(pn) => return Err(Fail::new(format!("derivative panicked: {pn}"), detail(json!(pn)))),
    };
    if let Some(c) = d.iter().chain(sd.iter()).find(|c| !c.is_finite()) {
        return Err(Fail::new("derivative of finite coefficients returned a non-finite number", detail(json!({"number": fj(*c), "derivative": fjs(&d)}))));
    }
    let want_len = if n == 1 { 1 } else { n - 1 };
    if d.len() != want_len {
        return Err(Fail::new("derivative has the wrong degree", detail(json!({"derivative": fjs(&d)}))));
    }
    if n == 1 {
        if d[0] != 0.0 {
            return Err(Fail::new("derivative of a constant is not the zero constant", detail(json!({"derivative": fjs(&d)}))));
        }
    } else {
        for i in 0..n - 1 {
            let k = i as i64 + 1;
            let want = dy(c[i + 1]).mul_i(k);
            let got = dy(d[i]);
            let exact_required = k & (k - 1) == 0;
            let ok = if exact_required { got.eq(&want) } else { got.sub(&want).abs().le(&dy(exact::ulp(d[i]))) };
            if !ok {
                return Err(Fail::new(
                    format!("derivative coefficient {i} is not {}*c_{} ({})", k, i + 1, if exact_required { "exactly" } else { "within one ulp" }),
                    detail(json!({"derivative": fjs(&d), "expected~": want.to_f64()})),
                ));
            }
        }
    }
    // value level: p'(x) within the evaluation bound of degree n-2 plus coefficient rounding
    for (xi, &x) in XS.iter().enumerate() {
        let xd = dy(x);
        let mut s = Dy::zero();
        let mut m = Dy::zero();
        let mut pw = Dy::from_i64(1);
        for i in 1..n {
            let t = dy(c[i]).mul_i(i as i64).mul(&pw);
            m = m.add(&t.abs());
            s = s.add(&t);
            pw = pw.mul(&xd);
        }
        let tol = m.mul_i(4 * (n as i64) + 2).mul_pow2(-53);
        let g = vals[xi];
        if !m.is_zero() && m.ilog2() >= 1020 {
            continue; // partial terms overflow: outside the property
        }
        if !g.is_finite() || !dy(g).sub(&s).abs().le(&tol) {
            return Err(Fail::new("p.derivative().evaluate(x) is not p'(x) within the evaluation bound", detail(json!({"x": fj(x), "got": fj(g), "exact~": s.to_f64(), "tolerance~": tol.to_f64()}))));
        }
    }
    if send.to_bits() != (-0.0f64).to_bits() || !all_bits_eq(&sd, &d) {
        return Err(Fail::new("Segment::derivative changes `end` or differs from the piece's own derivative", detail(json!({"segment_end": fj(send), "segment_piece": fjs(&sd)}))));
    }
    Ok(())
}

fn pw_leaf<T>(ends: &[f64], cx: &mut Cx) -> Verdict
where
    T: Nums + HasDerivative + Copy + PartialEq + std::fmt::Debug + Evaluate,
    Der<T>: Nums + Evaluate + Translate + PartialEq + std::fmt::Debug + Copy,
{
    let pw: Piecewise<T> = Piecewise {
        segments: ends
            .iter()
            .enumerate()
            .map(|(i, &e)| Segment { end: e, poly: T::from_nums(&LANE_ID.iter().map(|v| v * ((i % 17) as f64 + 1.0) + 0.25 * (i % 5) as f64).collect::<Vec<_>>()) })
            .collect(),
    };
    pw_structure(&pw, cx)
}

/// Piecewise::derivative against the pieces' own derivatives: number of pieces, every end and every number on bits
fn pw_structure<T>(pw: &Piecewise<T>, cx: &mut Cx) -> Verdict
where
    T: Nums + HasDerivative + Copy + PartialEq + std::fmt::Debug + Evaluate,
    Der<T>: Nums + Evaluate + Translate + PartialEq + std::fmt::Debug + Copy,
{
    let ends: Vec<f64> = pw.segments.iter().map(|s| s.end).collect();
    let ends = &ends[..];
    let detail = |obs: serde_json::Value| json!({"ends": fjs(ends), "piece_type": T::NAME, "pieces": pw.segments.iter().map(|s| fjs(&s.poly.nums())).collect::<Vec<_>>(), "observation": obs});
    // the operand also with other allocation histories (spare capacity, truncated, grown by push): same result on bits
    let modes: Vec<usize> = if pw.segments.len() <= 40 { (1..SLACK_MODES).collect() } else { vec![1 + pw.segments.len() % (SLACK_MODES - 1)] };
    for m in modes {
        let alt = pw_with_slack(pw, m);
        match guard(|| alt.derivative()) {
            Err(pn) => return Err(Fail::new(format!("Piecewise::derivative panicked: {pn}"), detail(json!({"allocation_history": m})))),
            Ok(d2) => {
                let same = guard(|| pw.derivative()).map_or(false, |d1| d1.segments.len() == d2.segments.len() && d1.segments.iter().zip(&d2.segments).all(|(a, b)| a.end.to_bits() == b.end.to_bits() && all_bits_eq(&a.poly.nums(), &b.poly.nums())));
                if !same {
                    return Err(Fail::new("Piecewise::derivative depends on the allocation history of the segments vector", detail(json!({"allocation_history": m}))));
                }
            }
        }
    }
    let r = guard(|| pw.derivative());
    cx.evals(1);
    let d = match r {
        Ok(d) => d,
        Err(pn) => return Err(Fail::new(format!("Piecewise::derivative panicked: {pn}"), detail(json!(pn)))),
    };
    if d.segments.len() != ends.len() {
        return Err(Fail::new("Piecewise::derivative changes the number of pieces", detail(json!({"result_len": d.segments.len()}))));
    }
    for (i, s) in d.segments.iter().enumerate() {
        if s.end.to_bits() != ends[i].to_bits() {
            return Err(Fail::new("Piecewise::derivative changes a breakpoint (or the order of pieces)", detail(json!({"index": i, "result_ends": fjs(&d.segments.iter().map(|s| s.end).collect::<Vec<_>>())}))));
        }
        let own = pw.segments[i].poly.derivative().nums();
        if !all_bits_eq(&s.poly.nums(), &own) {
            return Err(Fail::new("Piecewise::derivative: a piece is not that piece's own derivative", detail(json!({"index": i, "got": fjs(&s.poly.nums()), "expected": fjs(&own)}))));
        }
    }
    Ok(())
}

pub fn check(thorough: bool, _seed: u64) -> Check {
    let coeffs = Phase {
        name: "coefficients",
        units: 9,
        split: 3,
        body: Box::new(move |unit, cx| {
            let n = unit + 1;
            let mode = cx.choose(3);
            let c: Vec<f64> = if mode == 0 {
                let sc = [1.0, 8.673617379884035e-19, 1099511627776.0, 3e6, 1e-7][cx.choose(5)];
                LANE_ID[..n].iter().map(|v| v * sc).collect()
            } else if mode == 2 {
                // one lane at the overflow / underflow boundary of its integer factor: the largest c with k*c finite, its
                // neighbours, and the smallest normal / subnormal numbers
                let lane = cx.choose(n);
                let k = lane.max(1) as f64;
                let mut b = f64::MAX / k;
                if dy(b).mul_i(k as i64).cmp(&dy(f64::MAX)) == std::cmp::Ordering::Greater {
                    b = exact::pred(b); // MAX/k rounded up: keep the largest c whose exact product k*c is finite
                }
                // ... and whole numbers around the limits of the integer types (2^31, 2^32, 2^53, 2^62, 2^63/k, 2^63, 2^64)
                let i63k = (9223372036854775808.0f64 / k).ceil();
                let vals = [b, -b, exact::pred(b), b * 0.9375, f64::MAX / (k + 1.0), f64::MIN_POSITIVE, -f64::MIN_POSITIVE * 1.5, 5e-324 * k, f64::MAX / (k + 0.5), -f64::MAX / (k + 0.5),
                    2147483648.0, -4294967296.0, 9007199254740992.0, 4611686018427387904.0, i63k, -i63k, exact::succ(i63k), 4e18, -6e18, 9223372036854775808.0, -9223372036854775808.0, 18446744073709551616.0, 16777217.0];
                let mut v = LANE_ID[..n].to_vec();
                v[lane] = vals[cx.choose(vals.len())];
                v
            } else {
                let w = if n <= 6 { 8 } else if thorough { 6 } else { 4 };
                (0..n).map(|_| COEF[cx.choose(w)]).collect()
            };
            if c.iter().skip(1).filter(|v| **v != 0.0).count() >= 2 {
                cx.nontrivial();
            }
            cx.class(if n == 1 { 0 } else { 1 });
            if cx.sampling() {
                cx.sample(json!({"degree": unit, "coefficients": c}));
            }
            by_degree!(unit, leaf(&c, cx))
        }),
        classes: vec![("degree_0", true), ("degree>=1", true)],
        bounds: json!({"degrees": "0..8", "coefficients": format!("lane-identifier vector (also scaled by 2^-60, 2^40, 3e6, 1e-7); every lane swept through the overflow boundary MAX/k of its factor, its neighbours, MAX/7.5, MIN_POSITIVE, subnormals and whole numbers at the integer-type limits (2^31, 2^32, 2^53, 2^62, 2^63/k, 2^63, 2^64) + cube over the first w of {{0,1,-1,0.1,-1/3,7.25e5,pi,1e-9}}: w=8 up to degree 5, w={} above", if thorough {6} else {4}),
            "arguments": "{-2.5,0.3,7,0}", "oracle": "exact dyadic (i+1)*c_(i+1)"}),
    };
    let mut sh = shapes(&[1.0, 2.0, 3.0, 4.0], 4);
    sh.extend(shapes(&[-f64::MAX, -0.0, 0.0, 5e-324, f64::INFINITY], 3));
    // breakpoints a few ulps apart (distinct pieces that a tolerance-based clean-up would merge)
    let s1 = exact::succ(1.0);
    sh.extend(shapes(&[1.0, s1, exact::succ(s1), 2.0], 4));
    sh.push(vec![0.3, 0.1 + 0.2, 1.0]);
    sh.push(vec![-1.0, exact::succ(-1.0), 5e-324, 1e-323]);
    // every length up to 520 (strip / block sizes of any chunked implementation)
    for n in (5..=(if thorough { 3300usize } else { 1650 })).chain([32768, 65537, 70003]) {
        sh.push((1..=n).map(|i| i as f64).collect());
    }
    for n in [6usize, 9, 17] {
        let mut e: Vec<f64> = (1..=n).map(|i| i as f64).collect();
        sh.push(e.clone());
        e[n / 2] = e[n / 2 - 1];
        e[n - 1] = e[n - 2];
        sh.push(e);
    }
    // "all piecewise functions": end lists in any order and with NaN / infinite ends must come back bit-identical too
    for len in 2..=4usize {
        for code in 0..3usize.pow(len as u32) {
            let e: Vec<f64> = (0..len).map(|i| [1.0, 2.0, 3.0][(code / 3usize.pow(i as u32)) % 3]).collect();
            if e.windows(2).any(|w| w[0] > w[1]) {
                sh.push(e);
            }
        }
    }
    sh.push(vec![0.6947, 0.6844, 0.7268]);
    sh.push(vec![1.0, f64::NAN, 0.5]);
    sh.push(vec![f64::from_bits(0x7ff8_0000_0000_0001), f64::INFINITY, f64::NEG_INFINITY, 1.0]);
    sh.push((0..12).map(|i| ((i * 7) % 12) as f64).collect());
    let ns = sh.len();
    let sh = Arc::new(sh);
    let piecewise = Phase {
        name: "piecewise-structure",
        units: ns,
        split: 0,
        body: Box::new(move |unit, cx| {
            let ends = &sh[unit];
            if ends.len() >= 2 {
                cx.nontrivial();
            }
            if cx.sampling() {
                cx.sample(json!({"ends": fjs(ends)}));
            }
            match cx.choose(9) {
                0 => pw_leaf::<Poly1>(ends, cx),
                1 => pw_leaf::<Poly4>(ends, cx),
                2 => pw_leaf::<Poly8>(ends, cx),
                3 => pw_leaf::<Poly0>(ends, cx),
                4 => pw_leaf::<Poly2>(ends, cx),
                5 => pw_leaf::<Poly3>(ends, cx),
                6 => pw_leaf::<Poly5>(ends, cx),
                7 => pw_leaf::<Poly6>(ends, cx),
                _ => pw_leaf::<Poly7>(ends, cx),
            }
        }),
        classes: vec![],
        bounds: json!({"shapes": "end lists of length 1..4 over {1..4}, 1..3 over {-MAX,-0.0,+0.0,5e-324,+inf}, 1..n for every n up to 1650 (3300 thorough) and n = 32768, 65537, 70003, n=6,9,17 also with duplicate runs; lists over {1,succ(1),succ(succ(1)),2}, [0.3, 0.1+0.2, 1], [-1,succ(-1),5e-324,1e-323]; every list of length 2..4 over {1,2,3} with a descent, a shuffled list of 12, lists with NaN (two payloads) and infinite ends", "piece_types": "Poly0..Poly8"}),
    };
    // adjacent pieces that are smooth across their breakpoint up to rounding: the values / slopes of the two derivative pieces at
    // the shared breakpoint agree to a few ulps .. 1e-9 relative without being bit-equal (what spline output and rounded data
    // look like). The derivative of a piecewise function is still each piece's own derivative, untouched.
    let smooth = Phase {
        name: "nearly-smooth-adjacent-pieces",
        units: 4,
        split: 1,
        body: Box::new(move |unit, cx| {
            cx.nontrivial();
            match unit {
                // family: every piece is a copy of one cubic / quartic re-centred nowhere, with one coefficient off by a relative delta
                0 | 1 => {
                    const DELTA: [f64; 9] = [0.0, 2.220446049250313e-16, -2.220446049250313e-16, 1e-15, 4e-10, -7e-10, 1e-12, 3e-9, 1e-6];
                    let np = 2 + cx.choose(if thorough { 4 } else { 3 });
                    let lane_n = if unit == 0 { 4 } else { 5 };
                    let basec: Vec<f64> = [0.001, 0.3, -0.7, 0.11, 0.013][..lane_n].to_vec();
                    let mut segs = vec![];
                    let mut cur = basec.clone();
                    for i in 0..np {
                        if i > 0 {
                            let lane = cx.choose(lane_n);
                            cur[lane] *= 1.0 + DELTA[cx.choose(DELTA.len())];
                        }
                        segs.push((0.5 + i as f64 * [1.0, 0.25, 3.0][i % 3], cur.clone()));
                    }
                    if cx.sampling() {
                        cx.sample(json!({"pieces": segs.iter().map(|(e, c)| json!({"end": e, "coefficients": c})).collect::<Vec<_>>()}));
                    }
                    if unit == 0 {
                        pw_structure(&Piecewise { segments: segs.iter().map(|(e, c)| Segment { end: *e, poly: Poly3::from_nums(c) }).collect() }, cx)
                    } else {
                        pw_structure(&Piecewise { segments: segs.iter().map(|(e, c)| Segment { end: *e, poly: Poly4::from_nums(c) }).collect() }, cx)
                    }
                }
                // the library's own curves: constrained_spline (C1 up to rounding) and linear (C0), and the spline's derivative again
                _ => {
                    const YS: [f64; 6] = [0.0, 1.0, 0.5, 2.0, 0.1 + 0.2, -1.5];
                    const XSTEP: [f64; 4] = [1.0, 0.1, 0.3, 2.5];
                    let nk = 3 + cx.choose(3);
                    let mut x = [0.0, 0.7, -3.0][cx.choose(3)];
                    let mut ks = vec![];
                    for _ in 0..nk {
                        ks.push(Knot { x, y: YS[cx.choose(YS.len())] });
                        x += XSTEP[cx.choose(if thorough { 4 } else { 2 })];
                    }
                    if cx.sampling() {
                        cx.sample(json!({"knots": ks.iter().map(|k| json!([k.x, k.y])).collect::<Vec<_>>()}));
                    }
                    if unit == 2 {
                        let sp = match guard(|| constrained_spline(&ks)) {
                            Ok(s) => s,
                            Err(_) => return Ok(()), // construction is C04's business
                        };
                        if sp.segments.iter().any(|s| s.poly.nums().iter().any(|v| !v.is_finite())) {
                            return Ok(());
                        }
                        pw_structure(&sp, cx)?;
                        let d1 = match guard(|| sp.derivative()) {
                            Ok(d) => d,
                            Err(pn) => return Err(Fail::new(format!("Piecewise::derivative panicked: {pn}"), json!({"knots": ks.iter().map(|k| json!([fj(k.x), fj(k.y)])).collect::<Vec<_>>()}))),
                        };
                        pw_structure(&d1, cx)
                    } else {
                        let li = match guard(|| linear(&ks)) {
                            Ok(s) => s,
                            Err(_) => return Ok(()),
                        };
                        pw_structure(&li, cx)
                    }
                }
            }
        }),
        classes: vec![],
        bounds: json!({"families": "2..4 (5 thorough) pieces of Poly3 / Poly4, each piece the previous one with one coefficient (every lane) scaled by 1+d, d in {0, +-1ulp, 1e-15, 4e-10, -7e-10, 1e-12, 3e-9, 1e-6}",
            "library curves": "constrained_spline and linear on 3..5 knots (3 origins, steps {1,0.1} (+{0.3,2.5} thorough), ordinates over {0,1,0.5,2,0.1+0.2,-1.5}); the spline's derivative differentiated again",
            "comparison": "number of pieces, every end and every number of every piece on bits against the piece's own derivative()"}),
    };
    Check {
        id: "C08",
        rule: "choice tree: degree unit x one coefficient per lane, and shape unit x piece type; each leaf runs the real derivative() (form, Segment, Piecewise) and evaluates the result; non-trivial = >=2 non-zero non-constant coefficients, resp. >=2 pieces".into(),
        assumptions: vec![],
        phases: vec![coeffs, piecewise, smooth],
        extra: Default::default(),
        controls: vec![],
    }
}
