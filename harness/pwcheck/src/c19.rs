//! C19 — Arbitrary for Piecewise<T>: every byte string gives Err or a well-formed function; never panics.
use crate::common::*;
use arbitrary::{Arbitrary, Unstructured};
use serde_json::json;
use xplore::*;

#[derive(Debug, Clone, Copy, PartialEq)]
pub struct Tag(pub u8);
impl<'a> Arbitrary<'a> for Tag {
    fn arbitrary(u: &mut Unstructured<'a>) -> arbitrary::Result<Self> {
        let b = u.bytes(1)?; // fails with NotEnoughData when the input is exhausted
        Ok(Tag(b[0]))
    }
}
impl Evaluate for Tag {
    fn evaluate(&self, _: f64) -> f64 {
        self.0 as f64
    }
}

/// harness-side reference decoder of Vec<f64> (classification of inputs only, never a verdict)
fn ref_decode(mut b: &[u8]) -> (Vec<f64>, usize) {
    let total = b.len();
    let mut v = vec![];
    loop {
        if b.is_empty() || b[0] & 1 == 0 {
            if !b.is_empty() {
                b = &b[1..];
            }
            break;
        }
        b = &b[1..];
        let mut w = [0u8; 8];
        let n = b.len().min(8);
        w[..n].copy_from_slice(&b[..n]);
        b = &b[n..];
        v.push(f64::from_bits(u64::from_le_bytes(w)));
    }
    (v, total - b.len())
}

const C_ERR_EMPTY: usize = 0;
const C_ERR_NAN: usize = 1;
const C_ERR_INF: usize = 2;
const C_ERR_SUB: usize = 3;
const C_ERR_ZERO: usize = 4;
const C_ERR_PIECE: usize = 5;
const C_OK1: usize = 6;
const C_OK_REORDERED: usize = 7;
const C_OK_DUP: usize = 8;
const C_OK_MANY: usize = 9;
fn class_names(structured: bool) -> Vec<(&'static str, bool)> {
    vec![
        ("Err:empty_end_list", true),
        ("Err:NaN_end", structured),
        ("Err:infinite_end", structured),
        ("Err:subnormal_end", true),
        ("Err:zero_end", true),
        ("Err:ran_out_while_drawing_pieces", structured),
        ("Ok:one_piece", structured),
        ("Ok:reordered_by_sort", structured),
        ("Ok:duplicate_ends", structured),
        ("Ok:two_or_more_pieces", structured),
    ]
}

fn examine<T>(bytes: &[u8], kind: &str, cx: &mut Cx) -> Verdict
where
    T: for<'a> Arbitrary<'a> + Evaluate,
{
    let detail = |obs: serde_json::Value| json!({"bytes": bytes, "piece_type": kind, "observation": obs});
    examine_result::<T>(bytes, kind, cx, guard(|| Piecewise::<T>::arbitrary_take_rest(Unstructured::new(bytes))), "arbitrary_take_rest")?;
    let r = guard(|| {
        let mut u = Unstructured::new(bytes);
        Piecewise::<T>::arbitrary(&mut u)
    });
    examine_result::<T>(bytes, kind, cx, r, "arbitrary")
}

fn examine_result<T>(bytes: &[u8], kind: &str, cx: &mut Cx, r: Result<arbitrary::Result<Piecewise<T>>, String>, entry: &str) -> Verdict
where
    T: for<'a> Arbitrary<'a> + Evaluate,
{
    let detail = |obs: serde_json::Value| json!({"bytes": bytes, "piece_type": kind, "entry_point": entry, "observation": obs});
    cx.evals(1);
    let (dec, _) = ref_decode(bytes);
    let r = match r {
        Err(p) => return Err(Fail::new(format!("Piecewise::arbitrary panicked: {p}"), detail(json!({"decoded_ends": fjs(&dec)})))),
        Ok(r) => r,
    };
    match r {
        Err(_) => {
            if dec.is_empty() {
                cx.class(C_ERR_EMPTY);
            } else if dec.iter().any(|x| x.is_nan()) {
                cx.class(C_ERR_NAN);
            } else if dec.iter().any(|x| x.is_infinite()) {
                cx.class(C_ERR_INF);
            } else if dec.iter().any(|x| *x == 0.0) {
                cx.class(C_ERR_ZERO);
            } else if dec.iter().any(|x| x.is_subnormal()) {
                cx.class(C_ERR_SUB);
            } else {
                cx.class(C_ERR_PIECE);
            }
            Ok(())
        }
        Ok(pw) => {
            let ends: Vec<f64> = pw.segments.iter().map(|s| s.end).collect();
            if ends.is_empty() {
                return Err(Fail::new("Arbitrary returned a piecewise function with no segments", detail(json!({}))));
            }
            if let Some(e) = ends.iter().find(|e| !e.is_normal()) {
                return Err(Fail::new("Arbitrary returned a breakpoint that is not a normal float", detail(json!({"ends": fjs(&ends), "offending": fj(*e)}))));
            }
            if ends.windows(2).any(|w| !(w[0] <= w[1])) {
                return Err(Fail::new("Arbitrary returned breakpoints that are not in non-decreasing order", detail(json!({"ends": fjs(&ends)}))));
            }
            if ends.len() == 1 {
                cx.class(C_OK1);
            } else {
                cx.class(C_OK_MANY);
                cx.nontrivial();
            }
            if dec.windows(2).any(|w| w[0] > w[1]) {
                cx.class(C_OK_REORDERED);
            }
            if ends.windows(2).any(|w| w[0] == w[1]) {
                cx.class(C_OK_DUP);
            }
            // evaluate through all three evaluators: the value itself (no panic) and a re-labelled copy (same choice)
            let alpha = order_alphabet(&ends);
            let probe = probe_pw(&ends);
            let res = guard(|| {
                let mut bad: Option<(f64, &'static str, f64, f64)> = None;
                let mut ev_t = PiecewiseEvaluator::new(&pw.segments);
                let mut ev_p = PiecewiseEvaluator::new(&probe.segments);
                let via_v: Vec<f64> = probe.evaluate_v(alpha.iter().cloned()).collect();
                let _tv: Vec<f64> = pw.evaluate_v(alpha.iter().cloned()).collect();
                for (i, &x) in alpha.iter().enumerate() {
                    let _ = pw.evaluate(x);
                    let _ = ev_t.evaluate(x);
                    let d = probe.evaluate(x);
                    let want = probe.segments[ref_index(&ends, x)].evaluate(x);
                    let e = ev_p.evaluate(x);
                    if !bits_eq(d, want) && bad.is_none() {
                        bad = Some((x, "direct", d, want));
                    }
                    if !bits_eq(d, e) && bad.is_none() {
                        bad = Some((x, "evaluator", e, d));
                    }
                    if !bits_eq(d, via_v[i]) && bad.is_none() {
                        bad = Some((x, "evaluate_v", via_v[i], d));
                    }
                }
                for &x in alpha.iter().rev() {
                    let d = probe.evaluate(x);
                    let e = ev_p.evaluate(x);
                    let _ = ev_t.evaluate(x);
                    if !bits_eq(d, e) && bad.is_none() {
                        bad = Some((x, "evaluator(descending)", e, d));
                    }
                }
                // a fresh evaluator for every argument (its first query), asked twice (functions of up to 64 pieces)
                if ends.len() <= 64 {
                    for &x in &alpha {
                        let d = probe.evaluate(x);
                        let mut fresh = PiecewiseEvaluator::new(&probe.segments);
                        let (e1, e2) = (fresh.evaluate(x), fresh.evaluate(x));
                        if (!bits_eq(d, e1) || !bits_eq(d, e2)) && bad.is_none() {
                            bad = Some((x, "fresh evaluator, first and repeated query", if bits_eq(d, e1) { e2 } else { e1 }, d));
                        }
                    }
                }
                // up again after the long descent, then a zig-zag of jumps (the same evaluator all along)
                let zig: Vec<f64> = alpha.iter().cloned().chain((0..alpha.len()).map(|i| if i % 2 == 0 { alpha[(i * 7) % alpha.len()] } else { alpha[alpha.len() - 1 - (i * 3) % alpha.len()] })).collect();
                for &x in &zig {
                    let d = probe.evaluate(x);
                    let e = ev_p.evaluate(x);
                    let _ = ev_t.evaluate(x);
                    if !bits_eq(d, e) && bad.is_none() {
                        bad = Some((x, "evaluator(ascending again / zig-zag)", e, d));
                    }
                }
                bad
            });
            cx.evals(alpha.len() as u64 * 8);
            match res {
                Err(p) => Err(Fail::new(format!("evaluating an Arbitrary-generated function panicked: {p}"), detail(json!({"ends": fjs(&ends)})))),
                Ok(Some((x, who, got, want))) => Err(Fail::new(
                    "the three evaluators do not select the same segment on an Arbitrary-generated function",
                    detail(json!({"ends": fjs(&ends), "x": fj(x), "evaluator": who, "got": fj(got), "expected": fj(want)})),
                )),
                Ok(None) => Ok(()),
            }
        }
    }
}

fn dispatch(bytes: &[u8], kind: usize, cx: &mut Cx) -> Verdict {
    if cx.sampling() {
        cx.sample(json!({"bytes": bytes, "piece_kind": kind}));
    }
    match kind {
        0 => examine::<Poly3>(bytes, "Poly3", cx),
        1 => examine::<PolyN>(bytes, "PolyN", cx),
        _ => examine::<Tag>(bytes, "Tag(fails when input is exhausted)", cx),
    }
}

fn end_values() -> Vec<f64> {
    vec![f64::NAN, f64::INFINITY, f64::NEG_INFINITY, 5e-324, 0.0, -0.0, 1.0, -2.0, 3.5, f64::MAX, 2.2250738585072014e-308]
}

pub fn check(thorough: bool, _seed: u64) -> Check {
    let maxlen = if thorough { 3 } else { 2 };
    let all_bytes = Phase {
        name: "all-short-byte-strings",
        units: 257,
        body: Box::new(move |unit, cx| {
            let kind = cx.choose(3);
            if unit == 256 {
                return dispatch(&[], kind, cx);
            }
            let len = 1 + cx.choose(maxlen);
            let mut b = vec![unit as u8];
            for _ in 1..len {
                b.push(cx.choose(256) as u8);
            }
            dispatch(&b, kind, cx)
        }),
        classes: class_names(false),
        split: 0,
        bounds: json!({"strings": format!("every byte string of length 0..{maxlen}"), "piece_types": "Poly3, PolyN, Tag"}),
    };
    let patterns = Phase {
        name: "all-sign-exponent-patterns",
        units: 256,
        body: Box::new(move |unit, cx| {
            let kind = cx.choose(3);
            let b6 = cx.choose(256) as u8;
            let mut bytes = vec![1u8, 0, 0, 0, 0, 0, 0, b6, unit as u8];
            match cx.choose(3) {
                0 => {}
                1 => {
                    bytes.push(1);
                    bytes.extend(1.0f64.to_bits().to_le_bytes());
                }
                _ => {
                    bytes.push(3);
                    bytes.extend((-1.0f64).to_bits().to_le_bytes());
                }
            }
            if cx.flag() {
                bytes.extend([2u8, 7, 7, 7, 7, 7, 7, 7, 7, 7, 7]);
            }
            dispatch(&bytes, kind, cx)
        }),
        classes: class_names(true).into_iter().map(|(n, _)| (n, false)).collect(),
        split: 0,
        bounds: json!({"strings": "first end = every one of the 65536 patterns of the top 16 bits (sign, exponent, leading mantissa bits; low bits zero), optionally followed by a second end 1.0 / -1.0 and by piece bytes"}),
    };
    let ev = end_values();
    let ne = ev.len();
    let maxk = 4usize;
    let structured = Phase {
        name: "structured-strings-and-prefixes",
        split: 4,
        units: ne * 2 + 1,
        body: Box::new(move |unit, cx| {
            let kind = cx.choose(3);
            // unit: first token (cont in {1,3}) x first end; last unit = no ends
            let mut bytes: Vec<u8> = vec![];
            let mut k = 0;
            if unit < ne * 2 {
                bytes.push(if unit % 2 == 0 { 1 } else { 3 });
                bytes.extend(ev[unit / 2].to_bits().to_le_bytes());
                k = 1 + cx.choose(if thorough { maxk } else { maxk - 1 }.max(1));
                for _ in 1..k {
                    bytes.push(1);
                    bytes.extend(cx.pick(&ev).to_bits().to_le_bytes());
                }
            }
            let _ = k;
            match cx.choose(3) {
                0 => bytes.push(0),
                1 => bytes.push(2),
                _ => {}
            }
            let npiece = [0usize, 1, 5, 40][cx.choose(4)];
            let fill = [0x01u8, 0xff][cx.choose(2)];
            bytes.extend(std::iter::repeat(fill).take(npiece));
            let cut = cx.choose(bytes.len() + 1); // every prefix (0 = the full string)
            let l = bytes.len() - cut;
            dispatch(&bytes[..l], kind, cx)
        }),
        classes: class_names(true),
        
        bounds: json!({"strings": format!("(continue byte in {{1,3}}, end in {{NaN,+inf,-inf,5e-324,0.0,-0.0,1,-2,3.5,MAX,2^-1022}}) x 0..{} ends, terminator in {{0,2,none}}, 0/1/5/40 piece bytes of 0x01 or 0xff, and every prefix of every such string", if thorough {4} else {3}),
            "piece_types": "Poly3 (never fails), PolyN (variable length), Tag (fails when input is exhausted)"}),
    };
    // long inputs: many ends (size thresholds of the evaluators that consume the generated function)
    let long_sizes: Vec<usize> = if thorough { vec![10, 17, 33, 64, 65, 66, 70, 100, 129, 257] } else { vec![10, 33, 64, 65, 70, 100, 129] };
    let nls = long_sizes.len();
    let long_txt = format!("{:?}", long_sizes);
    // very long inputs (caps, selection / partial sorts, chunked sorting): n ends in four orders, optionally with one
    // non-normal end
    let vlong_sizes: Vec<usize> = if thorough { vec![300, 513, 1000, 1023, 1024, 1025, 1026, 1500, 2049, 4097, 5000, 8200] } else { vec![513, 1024, 1025, 1500, 2049] };
    let nvl = vlong_sizes.len();
    let vlong_txt = format!("{:?}", vlong_sizes);
    let vlong = Phase {
        name: "very-long-end-lists",
        units: nvl,
        split: 1,
        body: Box::new(move |unit, cx| {
            let n = vlong_sizes[unit];
            let kind = cx.choose(3);
            let order = cx.choose(4);
            let asc: Vec<f64> = (0..n).map(|i| i as f64 * 0.5 - (n / 3) as f64 + 0.25).collect();
            let mut ends: Vec<f64> = match order {
                0 => asc.clone(),
                1 => asc.iter().rev().cloned().collect(),
                2 => (0..n).filter(|i| i % 2 == 1).chain((0..n).filter(|i| i % 2 == 0)).map(|i| asc[i]).collect(),
                _ => (0..n).map(|i| asc[(i * 7919 + 13) % n]).collect(), // 7919 is prime and larger than every n here: a permutation
            };
            match cx.choose(5) {
                0 => {}
                1 => ends[0] = f64::NAN,
                2 => ends[n / 2] = 0.0,
                3 => ends[n - 1] = f64::INFINITY,
                _ => { ends[n / 3] = f64::MAX; ends[n / 3 + 1] = f64::MAX; }
            }
            let mut bytes = Vec::with_capacity(n * 9 + 1 + 64);
            for e in &ends {
                bytes.push(1);
                bytes.extend(e.to_bits().to_le_bytes());
            }
            bytes.push(0);
            bytes.extend(std::iter::repeat(0x41u8).take(n + 40));
            dispatch(&bytes, kind, cx)
        }),
        classes: class_names(true).into_iter().map(|(n, _)| (n, false)).collect(),
        bounds: json!({"strings": format!("{} ends in ascending, descending, odds-then-evens and a fixed pseudo-random order; all normal, or with NaN first, 0 in the middle, +inf last, or MAX twice; followed by piece bytes", vlong_txt), "piece_types": "Poly3, PolyN, Tag"}),
    };
    let long = Phase {
        name: "long-end-lists",
        units: nls,
        split: 1,
        body: Box::new(move |unit, cx| {
            let n = long_sizes[unit];
            let kind = cx.choose(3);
            // patterns of ends: ascending, descending, a duplicate at one position, an equal run, one non-normal end at one position,
            // repeats of an extreme value
            let pat = cx.choose(8);
            let mut ends: Vec<f64> = (0..n).map(|i| i as f64 - (n / 3) as f64 + 0.5).collect();
            match pat {
                0 => {}
                1 => ends.reverse(),
                2 => {
                    let p = 1 + cx.choose(n - 1);
                    ends[p] = ends[p - 1];
                }
                3 => {
                    let p = cx.choose(n - 4);
                    for k in 1..4 {
                        ends[p + k] = ends[p];
                    }
                    ends.reverse();
                }
                4 => {
                    let p = cx.choose(n);
                    ends[p] = [0.0, -0.0, 5e-324, f64::NAN, f64::INFINITY, f64::NEG_INFINITY][cx.choose(6)];
                }
                6 | 7 => {
                    // not already sorted (descending, or evens-then-odds) with one non-normal end at every position
                    if pat == 6 {
                        ends.reverse();
                    } else {
                        let (ev, od): (Vec<(usize, f64)>, Vec<(usize, f64)>) = ends.iter().cloned().enumerate().partition(|(i, _)| i % 2 == 0);
                        ends = od.into_iter().chain(ev.into_iter()).map(|(_, v)| v).collect();
                    }
                    let p = cx.choose(n);
                    ends[p] = [f64::NAN, 0.0, 5e-324, f64::INFINITY][cx.choose(4)];
                }
                _ => {
                    let e = [f64::MAX, -f64::MAX, f64::MIN_POSITIVE, -f64::MIN_POSITIVE][cx.choose(4)];
                    let p = cx.choose(n - 2);
                    ends[p] = e;
                    ends[p + 1] = e;
                    if cx.flag() {
                        ends[p + 2] = e;
                    }
                }
            }
            let mut bytes = Vec::with_capacity(n * 9 + 1 + 64);
            for e in &ends {
                bytes.push(1);
                bytes.extend(e.to_bits().to_le_bytes());
            }
            bytes.push(0);
            bytes.extend(std::iter::repeat(0x41u8).take(n + 40));
            dispatch(&bytes, kind, cx)
        }),
        classes: class_names(true).into_iter().map(|(n, _)| (n, false)).collect(),
        bounds: json!({"strings": format!("{:?} ends: ascending, descending, a duplicate at every position, a run of 4 equal ends at every position, one non-normal end (0,-0,5e-324,NaN,+-inf) at every position of the ascending, the descending and an evens-then-odds ordering, 2-3 copies of +-MAX / +-MIN_POSITIVE at every position; followed by piece bytes", long_txt),
            "piece_types": "Poly3, PolyN, Tag"}),
    };
    // ends that are neighbouring doubles, in every order (a comparator that rounds must still order them): around the
    // smallest normal numbers, around +-1, just below MAX and around an ordinary value
    let neighbours = Phase {
        name: "neighbouring-ends-in-every-order",
        units: 10,
        split: 1,
        body: Box::new(move |unit, cx| {
            let b = [f64::MIN_POSITIVE, -f64::MIN_POSITIVE, 1.0, -1.0, f64::MAX, -f64::MAX, 3e-308, -4.4e-308, 0.1, -123.456][unit];
            // five neighbours around b (kept inside the finite range)
            let lo = if b == -f64::MAX { b } else { exact::pred(exact::pred(b)) };
            let mut al = vec![lo];
            while al.len() < 5 {
                let n = exact::succ(*al.last().unwrap());
                if !n.is_finite() {
                    break;
                }
                al.push(n);
            }
            let kind = cx.choose(3);
            let k = 2 + cx.choose(3);
            let mut bytes: Vec<u8> = vec![];
            for _ in 0..k {
                bytes.push(1);
                bytes.extend(cx.pick(&al).to_bits().to_le_bytes());
            }
            if cx.flag() {
                bytes.push(1);
                bytes.extend([1.0f64, -1.0, f64::MAX][cx.choose(3)].to_bits().to_le_bytes());
            }
            bytes.push(0);
            bytes.extend(std::iter::repeat(0x41u8).take(48));
            dispatch(&bytes, kind, cx)
        }),
        classes: class_names(true).into_iter().map(|(n, _)| (n, false)).collect(),
        bounds: json!({"strings": "2..4 ends, each any of five consecutive doubles around b (two below .. two above), b in {+-MIN_POSITIVE, +-1, +-MAX, 3e-308, -4.4e-308, 0.1, -123.456}, every order with repetition, optionally followed by one of 1 / -1 / MAX; then piece bytes",
            "piece_types": "Poly3, PolyN, Tag"}),
    };
    Check {
        id: "C19",
        rule: "choice tree over byte strings: each leaf is one byte string fed to the real Arbitrary impl of Piecewise<T>; Ok values are evaluated at every x of A(ends) directly, through a fresh PiecewiseEvaluator (one history: ascending, descending, ascending again, then a zig-zag of jumps; and one fresh evaluator per argument, asked twice) and through evaluate_v; non-trivial = input decoding to a function with >= 2 pieces".into(),
        assumptions: vec!["arbitrary 1.4.2 decoding of Vec<f64> (used only to classify inputs, never for the verdict)".into()],
        phases: vec![all_bytes, patterns, structured, long, vlong, neighbours],
        extra: Default::default(),
        controls: vec![("reference decoder agrees with arbitrary on Vec<f64>", Box::new(|| {
            let b = [1u8, 0, 0, 0, 0, 0, 0, 0xf0, 0x3f, 3, 9, 9];
            let mut u = Unstructured::new(&b);
            let v = Vec::<f64>::arbitrary(&mut u).map_err(|e| e.to_string())?;
            let (d, _) = ref_decode(&b);
            if v.len() == d.len() && v.iter().zip(&d).all(|(a, b)| a.to_bits() == b.to_bits()) && v[0] == 1.0 { Ok(()) } else { Err(format!("{v:?} vs {d:?}")) }
        }))],
    }
}
