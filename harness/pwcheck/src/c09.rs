//! C09 — integrals of log-polynomials are true antiderivatives for every degree.
use crate::common::*;
use exact::{dy, Dy};
use serde_json::json;
use xplore::*;

const KX: [f64; 9] = [1.0, 0.5, 2.0, 7.5, 1e-3, 1e3, 1e7, 3e8, 1.0007];
const KY: [f64; 3] = [0.0, 2.0, -1e3];
const AB: [f64; 18] = [0.25, 0.5, 1.0, 2.0, 3.0, 10.0, 1e-3, 1e-6, 1e3, 1e7, 3e8, 1.0007, 0.9995, 5e-11, 1e-17, 1e150, 2e150, 1e200];
const CUBE: [f64; 3] = [0.0, 1.0, -0.5];
const LANE_ID: [f64; 9] = [1.5, -2.25, 3.125, -4.0625, 5.5, -6.75, 7.875, -8.9375, 9.96875];

/// exact q with q + q' = p, and the majorant Qbar_i = |p_i| + (i+1) Qbar_{i+1}
pub fn exact_q(p: &[f64]) -> (Vec<Dy>, Vec<Dy>) {
    let n = p.len();
    let mut q = vec![Dy::zero(); n];
    let mut m = vec![Dy::zero(); n];
    for i in (0..n).rev() {
        if i == n - 1 {
            q[i] = dy(p[i]);
            m[i] = dy(p[i]).abs();
        } else {
            q[i] = dy(p[i]).sub(&q[i + 1].mul_i(i as i64 + 1));
            m[i] = dy(p[i]).abs().add(&m[i + 1].mul_i(i as i64 + 1));
        }
    }
    (q, m)
}
/// G(t) = t*q(L) with L = ln t as f64; returns (G, majorant t*sum Qbar_i |L|^i, ln-sensitivity 2ulp(L)*t*sum i Qbar_i |L|^(i-1))
pub fn big_g(q: &[Dy], m: &[Dy], t: f64) -> (Dy, Dy, Dy) {
    let l = t.ln();
    let ld = dy(l);
    let la = ld.abs();
    let td = dy(t);
    let (mut s, mut mm, mut sens) = (Dy::zero(), Dy::zero(), Dy::zero());
    let mut pw = Dy::from_i64(1);
    let mut pwa = Dy::from_i64(1);
    for i in 0..q.len() {
        s = s.add(&q[i].mul(&pw));
        mm = mm.add(&m[i].mul(&pwa));
        if i + 1 < q.len() {
            sens = sens.add(&m[i + 1].mul(&pwa).mul_i(i as i64 + 1));
        }
        pw = pw.mul(&ld);
        pwa = pwa.mul(&la);
    }
    (td.mul(&s), td.mul(&mm), td.mul(&sens).mul(&dy(exact::ulp(l))).mul_i(2))
}

/// scale of a coefficient vector produced by `coeffs` (largest power of two not above the largest magnitude; 1 for ordinary vectors)
fn scale_of(c: &[f64]) -> f64 {
    let m = c.iter().fold(0.0f64, |m, v| m.max(v.abs()));
    if m < 1e-10 { 8.673617379884035e-19 } else if m > 1e9 { 1099511627776.0 } else { 1.0 }
}
fn coeffs(cx: &mut Cx, n: usize, cube_from: usize) -> Vec<f64> {
    // unit vectors, all ones, alternating, lane identifier, then the cube over {0,1,-0.5}
    let k = cx.choose(n + 4);
    if k < n {
        let mut v = vec![0.0; n];
        v[k] = 1.0;
        v
    } else if k == n {
        vec![1.0; n]
    } else if k == n + 1 {
        (0..n).map(|i| if i % 2 == 0 { 1.0 } else { -0.75 }).collect()
    } else if k == n + 2 {
        // lane identifier, also scaled by 2^-60 and 2^40 (the property is scale invariant)
        let sc = [1.0, 8.673617379884035e-19, 1099511627776.0][cx.choose(3)];
        LANE_ID[..n].iter().map(|v| v * sc).collect()
    } else {
        (0..n).map(|i| if i >= cube_from { CUBE[cx.choose(3)] } else { 1.0 }).collect()
    }
}

type Int<T> = <Log<T> as HasIntegral>::IntegralOf;

fn leaf<T>(p: &[f64], knot: Knot, a: f64, b: f64, cx: &mut Cx) -> Verdict
where
    T: Nums + Copy,
    Log<T>: HasIntegral,
    Int<T>: Nums + Evaluate,
{
    let n = p.len();
    let f = Log(T::from_nums(p));
    let detail = |obs: serde_json::Value| json!({"form": format!("Log<Poly{}>", n - 1), "coefficients": fjs(p), "knot": {"x": fj(knot.x), "y": fj(knot.y)}, "a": fj(a), "b": fj(b), "observation": obs});
    let r = guard(|| {
        let int = f.integral(knot);
        let ind = f.indefinite();
        (int.nums(), ind.nums(), int.evaluate(knot.x), int.evaluate(a), int.evaluate(b), ind.evaluate(a), ind.evaluate(b))
    });
    cx.evals(7);
    let (int, ind, fk, fa, fb, ia, ib) = match r {
        Ok(t) => t,
        Err(pn) => return Err(Fail::new(format!("log integration panicked: {pn}"), detail(json!(pn)))),
    };
    if let Some(c) = int.iter().chain(ind.iter()).find(|c| !c.is_finite()) {
        return Err(Fail::new("log integration of finite coefficients through a finite knot returned a non-finite number", detail(json!({"number": fj(*c), "integral_numbers": fjs(&int)}))));
    }
    let (q, m) = exact_q(p);
    let tiny = Dy::pow2(-40);
    // F(knot.x) = knot.y
    let (_, mk, _) = big_g(&q, &m, knot.x);
    let tol_k = mk.add(&dy(knot.y).abs()).mul(&tiny);
    if !fk.is_finite() || !dy(fk).sub(&dy(knot.y)).abs().le(&tol_k) {
        return Err(Fail::new("integral(knot) does not pass through the knot", detail(json!({"F(knot.x)": fj(fk), "tolerance~": tol_k.to_f64(), "integral_numbers": fjs(&int)}))));
    }
    // indefinite(): additive constant zero
    if ind[0] != 0.0 {
        return Err(Fail::new("indefinite() of a log-polynomial has a non-zero additive constant", detail(json!({"indefinite_numbers": fjs(&ind)}))));
    }
    // F(b)-F(a) = G(b)-G(a)
    let (ga, ma, sa) = big_g(&q, &m, a);
    let (gb, mb, sb) = big_g(&q, &m, b);
    let want = gb.sub(&ga);
    let tol0 = ma.add(&mb).mul(&tiny).add(&sa).add(&sb);
    for (name, ya, yb, nums) in [("integral(knot)", fa, fb, &int), ("indefinite()", ia, ib, &ind)] {
        // the additive constant k is an intermediate term of both evaluations: F(a) and F(b) are each rounded at magnitude |k|
        let mut tol = tol0.add(&dy(nums[0]).abs().mul(&tiny).mul_i(2));
        if n == 5 {
            // quartic special form k + v*sum c_j x^j + u*v*x^5*R(x): the term u*v*x^5*R(x) ~ u*v*e^x carries the rounding of
            // x = -ln v with sensitivity |u| (independent of v): propagate 2 ulp of ln at both evaluation points
            tol = tol.add(&dy(nums[5]).abs().mul(&dy(exact::ulp(a.ln())).add(&dy(exact::ulp(b.ln())))).mul_i(2));
            // and the evaluation of the quartic form itself is only required to be accurate to 1e-12 of its term magnitudes (C10)
            use crate::c14::ValueLevel;
            let f4 = IntOfLogPoly4::from_nums(nums);
            let t = 1e-12 * (f4.major(a) + f4.major(b));
            if t.is_finite() {
                tol = tol.add(&dy(t));
            }
        }
        if ya.is_finite() && yb.is_finite() {
            cx.ratio(dy(yb).sub(&dy(ya)).sub(&want).abs().to_f64() / tol.to_f64());
        }
        if !(ya.is_finite() && yb.is_finite()) || !dy(yb).sub(&dy(ya)).sub(&want).abs().le(&tol) {
            return Err(Fail::new(
                format!("{name}: F(b)-F(a) is not the integral of p(ln t) over [a,b]"),
                detail(json!({"F(a)": fj(ya), "F(b)": fj(yb), "F(b)-F(a)": yb - ya, "exact_integral~": want.to_f64(), "tolerance~": tol.to_f64(), "returned_numbers": fjs(nums)})),
            ));
        }
    }
    // structural check of the generic form (k, q_0..q_n): q_i + (i+1) q_{i+1} = p_i
    if n != 5 {
        for i in 0..n {
            let qi = dy(ind[1 + i]);
            let lhs = if i + 1 < n { qi.add(&dy(ind[2 + i]).mul_i(i as i64 + 1)) } else { qi };
            let tol_s = m[i].mul_pow2(2 - 53 + 2);
            if !lhs.sub(&dy(p[i])).abs().le(&tol_s) {
                return Err(Fail::new(format!("indefinite(): returned coefficients violate q_{i} + {}*q_{} = p_{i}", i + 1, i + 1), detail(json!({"indefinite_numbers": fjs(&ind)}))));
            }
        }
    }
    Ok(())
}

pub fn check(thorough: bool, _seed: u64) -> Check {
    let nk = KX.len() * KY.len();
    let pairs: Vec<(f64, f64)> = AB.iter().flat_map(|&a| AB.iter().filter(move |&&b| b != a).map(move |&b| (a, b))).collect();
    let np = pairs.len();
    let p2 = pairs.clone();
    let knots = Phase {
        name: "knots",
        units: 9 * nk,
        split: 2,
        body: Box::new(move |unit, cx| {
            let d = unit / nk;
            let k = unit % nk;
            let c = coeffs(cx, d + 1, if thorough { 0 } else { (d + 1).saturating_sub(7) });
            let kx = KX[k / KY.len()];
            // knot.y: alphabet value scaled like the coefficients, or a value on / next to the unshifted antiderivative G0(kx) = kx*q(ln kx)
            let ymode = cx.choose(4);
            let ky = if ymode == 0 {
                KY[k % KY.len()] * scale_of(&c)
            } else {
                let (qq, m) = exact_q(&c);
                let (g0, _, _) = big_g(&qq, &m, kx);
                g0.to_f64() * (1.0 + [0.0, 0.0, 3e-10, 1e-6][ymode]) + if ymode == 1 { 0.0 } else { 0.0 }
            };
            let knot = Knot { x: kx, y: ky };
            let (a, b) = p2[(cx.choose(5) * 17 + 3) % np];
            if knot.x != 1.0 && a != 1.0 && b != 1.0 {
                cx.nontrivial();
            }
            cx.class(if d == 4 { 0 } else { 1 });
            if cx.sampling() {
                cx.sample(json!({"degree": d, "coefficients": c, "knot": [knot.x, knot.y], "a": a, "b": b}));
            }
            by_degree!(d, leaf(&c, knot, a, b, cx))
        }),
        classes: vec![("quartic_special_form", true), ("generic_form", true)],
        bounds: json!({"degrees": "0..8", "coefficients": "unit vectors, all ones, alternating, lane identifier, cube over {0,1,-0.5} (last 7 lanes quick, all lanes thorough)",
            "knots": "x in {1,0.5,2,7.5,1e-3,1e3,1e7,3e8,1.0007} x y in {0,2,-1e3} (scaled like the coefficients) and y = G0(x)*(1+d), d in {0,3e-10,1e-6} (knot on / next to the unshifted antiderivative)", "(a,b)": "5 pairs per leaf"}),
    };
    let pairs_ph = Phase {
        name: "definite-integrals",
        units: 9 * np,
        split: 2,
        body: Box::new(move |unit, cx| {
            let d = unit / np;
            let (a, b) = pairs[unit % np];
            let c = coeffs(cx, d + 1, if thorough { 0 } else { (d + 1).saturating_sub(7) });
            let knot = Knot { x: 2.0, y: 5.0 };
            if a != 1.0 && b != 1.0 {
                cx.nontrivial();
            }
            cx.class(if d == 4 { 0 } else { 1 });
            if cx.sampling() {
                cx.sample(json!({"degree": d, "coefficients": c, "a": a, "b": b}));
            }
            by_degree!(d, leaf(&c, knot, a, b, cx))
        }),
        classes: vec![("quartic_special_form", true), ("generic_form", true)],
        bounds: json!({"degrees": "0..8", "coefficients": "as in phase knots", "(a,b)": "all ordered pairs of distinct values from {0.25,0.5,1,2,3,10,1e-3,1e-6,1e3,1e7,3e8,1.0007,0.9995,5e-11,1e-17,1e150,2e150,1e200}", "knot": "(2,5)",
            "oracle": "exact q from q_n=p_n, q_i=p_i-(i+1)q_(i+1); G(t)=t*q(L), L=ln t as f64; tolerance 2^-40*sum Qbar_i(a|L_a|^i+b|L_b|^i) + 2 ulp(L) sensitivity"}),
    };
    // dense sweep of the evaluation point: a branch of the evaluation that switches somewhere between the alphabet values
    // (series / closed form cut-offs, range reductions) is crossed with a resolution of 2^-9 in ln v over [e^-6, e^6]
    let sweep = Phase {
        name: "dense-argument-sweep",
        units: 9,
        split: 1,
        body: Box::new(move |unit, cx| {
            let d = unit;
            let steps = if thorough { 12288 } else { 6144 };
            let i = cx.choose(steps + 1);
            let t = -6.0 + 12.0 * (i as f64) / (steps as f64);
            let v = t.exp();
            let c: Vec<f64> = match cx.choose(2) {
                0 => LANE_ID[..d + 1].to_vec(),
                _ => (0..d + 1).map(|j| if j % 2 == 0 { 1.0 } else { -0.75 }).collect(),
            };
            let knot = if cx.flag() { Knot { x: 2.0, y: 5.0 } } else { Knot { x: v, y: -1.25 } };
            cx.nontrivial();
            cx.class(if d == 4 { 0 } else { 1 });
            if cx.sampling() {
                cx.sample(json!({"degree": d, "coefficients": c, "a": v, "b": 1.5, "knot": [knot.x, knot.y]}));
            }
            by_degree!(d, leaf(&c, knot, v, 1.5, cx))
        }),
        classes: vec![("quartic_special_form", true), ("generic_form", true)],
        bounds: json!({"degrees": "0..8", "a": if thorough {"exp(t), t = -6 + 12 i/12288, every i"} else {"exp(t), t = -6 + 12 i/6144, every i"}, "b": "1.5", "coefficients": "lane identifier and alternating {1,-0.75}",
            "knot": "(2,5) and (a,-1.25): the swept point is also used as the knot"}),
    };
    // coincidences among the coefficients of a quartic: the special form's derived numbers (u, the bracket coefficients) can
    // vanish exactly, e.g. 4 ln^3 + ln^4 has u = 0
    let coincide = Phase {
        name: "quartic-coefficient-cube",
        units: 1,
        split: 2,
        body: Box::new(move |_unit, cx| {
            let c: Vec<f64> = (0..5).map(|_| [0.0, 1.0, 4.0, -2.0, 0.25][cx.choose(5)]).collect();
            let (a, b) = [(0.5, 3.0), (1.5, 0.25), (1e-3, 7.5)][cx.choose(3)];
            let knot = if cx.flag() { Knot { x: 2.0, y: 5.0 } } else { Knot { x: 0.75, y: 0.0 } };
            cx.nontrivial();
            cx.class(0);
            if cx.sampling() {
                cx.sample(json!({"degree": 4, "coefficients": c, "a": a, "b": b}));
            }
            leaf::<Poly4>(&c, knot, a, b, cx)
        }),
        classes: vec![("quartic_special_form", true)],
        bounds: json!({"degree": 4, "coefficients": "every vector in {0,1,4,-2,0.25}^5", "(a,b)": "(0.5,3), (1.5,0.25), (1e-3,7.5)", "knot": "(2,5), (0.75,0)"}),
    };
    // exact cancellations inside the recurrence q_n = p_n, q_i = p_i - (i+1) q_(i+1): inputs built backwards from a q vector of
    // small integers with one entry (every position in turn) exactly zero, so that an intermediate result of the library's own
    // computation vanishes although no input coefficient does
    let cancel = Phase {
        name: "cancellations-inside-the-recurrence",
        units: 8,
        split: 1,
        body: Box::new(move |unit, cx| {
            let d = unit + 1; // degrees 1..8
            let zero_at = cx.choose(d); // q_zero_at = 0 (never the leading one)
            let pat = cx.choose(3);
            let qv: Vec<f64> = (0..=d).map(|i| if i == zero_at { 0.0 } else { [[1.0, -2.0, 3.0], [2.0, 1.0, -1.0], [-1.0, 1.0, 2.0]][pat][i % 3] }).collect();
            // p_i = q_i + (i+1) q_(i+1): exact in small integers
            let p: Vec<f64> = (0..=d).map(|i| qv[i] + if i < d { (i as f64 + 1.0) * qv[i + 1] } else { 0.0 }).collect();
            let (a, b) = [(0.5, 3.0), (2.0, 0.25)][cx.choose(2)];
            let knot = Knot { x: 2.0, y: 5.0 };
            cx.nontrivial();
            cx.class(if d == 4 { 0 } else { 1 });
            if cx.sampling() {
                cx.sample(json!({"degree": d, "coefficients": p, "q": qv, "a": a, "b": b}));
            }
            by_degree!(d, leaf(&p, knot, a, b, cx))
        }),
        classes: vec![("quartic_special_form", true), ("generic_form", true)],
        bounds: json!({"degrees": "1..8", "coefficients": "p_i = q_i + (i+1) q_(i+1) for q over three small-integer patterns with q_j = 0 for every j below the degree in turn", "(a,b)": "(0.5,3), (2,0.25)", "knot": "(2,5)"}),
    };
    // knots on and next to a zero of the unshifted antiderivative t*q(ln t) other than t = 1: q is built with the root L0, p follows
    // from the recurrence (exact small dyadic numbers), knot.x = exp(L0)(1+d): G0(knot.x) is small by cancellation
    let zeros = Phase {
        name: "knots-next-to-zeros-of-the-antiderivative",
        units: 8,
        split: 1,
        body: Box::new(move |unit, cx| {
            let d = unit + 1; // degree of p (and of q)
            let l0 = [-1.0, 0.5, 2.0, -0.25][cx.choose(4)];
            // q(L) = (L - l0) * s(L), s of degree d-1 with small integer coefficients
            let sv: Vec<f64> = (0..d).map(|i| [1.0, -2.0, 1.0, 3.0, -1.0, 2.0, 1.0, -1.0][i]).collect();
            let mut qv = vec![0.0; d + 1];
            for (i, c) in sv.iter().enumerate() {
                qv[i + 1] += c;
                qv[i] -= l0 * c;
            }
            let p: Vec<f64> = (0..=d).map(|i| qv[i] + if i < d { (i as f64 + 1.0) * qv[i + 1] } else { 0.0 }).collect();
            let delta = [0.0, 3e-7, -3e-7, 1e-9, -1e-12, 2.5e-16][cx.choose(6)];
            let kx = l0.exp() * (1.0 + delta);
            let knot = Knot { x: kx, y: [0.5, 0.0, -3.0][cx.choose(3)] };
            cx.nontrivial();
            cx.class(if d == 4 { 0 } else { 1 });
            if cx.sampling() {
                cx.sample(json!({"degree": d, "coefficients": p, "root_of_q": l0, "knot": [knot.x, knot.y]}));
            }
            by_degree!(d, leaf(&p, knot, 0.5, 3.0, cx))
        }),
        classes: vec![("quartic_special_form", true), ("generic_form", true)],
        bounds: json!({"degrees": "1..8", "coefficients": "p from q(L) = (L - L0) s(L), L0 in {-1, 0.5, 2, -0.25}, s with small integer coefficients", "knot.x": "exp(L0)(1+d), d in {0, +-3e-7, 1e-9, -1e-12, 2.5e-16}", "knot.y": "{0.5, 0, -3}", "(a,b)": "(0.5, 3)"}),
    };
    // coefficients of very different and of extreme magnitude (the property is linear in the coefficients: a rescaling
    // path must not treat one coefficient differently from the others)
    let magn = Phase {
        name: "extreme-coefficient-magnitudes",
        units: 9,
        split: 1,
        body: Box::new(move |d, cx| {
            let n = d + 1;
            let sc = [1e160, 1e200, 4.149515568880993e180, 1e-200, 1e-160, 1e100][cx.choose(6)];
            let pat = cx.choose(4);
            let lane = cx.choose(n);
            let c: Vec<f64> = (0..n)
                .map(|i| match pat {
                    0 => LANE_ID[i] * sc,                                              // everything at the extreme scale
                    1 => if i == lane { sc } else { LANE_ID[i] * sc * 1e-10 },          // one coefficient 10 orders above the rest
                    2 => if i == lane { sc } else if i == n - 1 { sc * 1e-10 } else { 0.0 }, // one extreme coefficient and a leading one
                    _ => if i == lane { LANE_ID[i] } else { LANE_ID[i] * sc },          // one ordinary coefficient among extreme ones
                })
                .collect();
            let kx = [2.0, 0.5, 7.5][cx.choose(3)];
            let knot = Knot { x: kx, y: [0.0, 2.0 * sc][cx.choose(2)] };
            let (a, b) = [(2.0, 3.0), (0.5, 0.25), (3.0, 10.0), (1e-3, 2.0)][cx.choose(4)];
            cx.nontrivial();
            cx.class(if d == 4 { 0 } else { 1 });
            if cx.sampling() {
                cx.sample(json!({"degree": d, "coefficients": c, "knot": [knot.x, knot.y], "a": a, "b": b}));
            }
            by_degree!(d, leaf(&c, knot, a, b, cx))
        }),
        classes: vec![("quartic_special_form", true), ("generic_form", true)],
        bounds: json!({"degrees": "0..8", "coefficients": "scale s in {1e160,1e200,2^600,1e-200,1e-160,1e100} x {lane identifier*s; one coefficient (every position) s with the rest 1e-10 s; one coefficient s and a leading 1e-10 s; one ordinary coefficient among s-sized ones}",
            "knots": "x in {2,0.5,7.5} x y in {0,2s}", "(a,b)": "(2,3),(0.5,0.25),(3,10),(1e-3,2)"}),
    };
    Check {
        id: "C09",
        rule: "choice tree: (degree, knot) resp. (degree, (a,b)) unit x coefficient vector; each leaf runs the real Log<PolyN>::integral / indefinite and evaluates the result at knot.x, a and b through its real evaluate; non-trivial = a, b (and knot.x) different from 1".into(),
        assumptions: vec!["f64::ln within 1 ulp (its rounding is propagated into the tolerance)".into()],
        phases: vec![knots, pairs_ph, sweep, coincide, cancel, zeros, magn],
        extra: Default::default(),
        controls: vec![("oracle G reproduces the integral of ln t: t ln t - t", Box::new(|| {
            let (q, m) = exact_q(&[0.0, 1.0]);
            let (g3, _, _) = big_g(&q, &m, 3.0);
            let (g1, _, _) = big_g(&q, &m, 1.0);
            let want = 3.0 * 3.0f64.ln() - 3.0 + 1.0;
            if (g3.sub(&g1).to_f64() - want).abs() < 1e-14 { Ok(()) } else { Err(format!("{} vs {want}", g3.sub(&g1).to_f64())) }
        }))],
    }
}
