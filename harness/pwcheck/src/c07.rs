//! C07 — polynomial integration yields the antiderivative through the given knot.
use crate::common::*;
use exact::{dy, q, Dy, Q};
use serde_json::json;
use xplore::*;

const COEF: [f64; 6] = [0.0, 1.0, -1.0, 0.1, -0.3333333333333333, 7.25e5];
const KX: [f64; 10] = [0.0, 2.0, -2.0, 0.5, -7.3, 1e3, 1e-17, -1e-17, 5e-324, 1e5];
const KY: [f64; 3] = [0.0, 5.0, -1e6];
const AB: [f64; 5] = [-2.5, 0.0, 0.3, 1.0, 7.0];
const LANE_ID: [f64; 8] = [1.5, -2.25, 3.125, -4.0625, 5.5, -6.75, 7.875, -8.9375];

fn poly_exact(c: &[f64], x: &Dy) -> (Dy, Dy) {
    // (sum c_i x^i, sum |c_i||x|^i)
    let mut s = Dy::zero();
    let mut m = Dy::zero();
    let mut p = Dy::from_i64(1);
    for &ci in c {
        let t = dy(ci).mul(&p);
        m = m.add(&t.abs());
        s = s.add(&t);
        p = p.mul(x);
    }
    (s, m)
}
fn width(n: usize, thorough: bool) -> usize {
    if thorough { if n <= 6 { 6 } else { 5 } } else if n <= 5 { 6 } else { 4 }
}
/// power-of-two scalings applied to coefficients *and* knot.y: the property is scale invariant, absolute thresholds are not
pub const SCALES: [f64; 3] = [1.0, 8.673617379884035e-19 /* 2^-60 */, 1099511627776.0 /* 2^40 */];
fn pick_coeffs(cx: &mut Cx, n: usize, thorough: bool) -> (Vec<f64>, f64) {
    // 0: lane-identifier vector x scale; 1: the full cube; 2: small cube {0,1,-1/3} x non-unit scales
    match cx.choose(4) {
        0 => {
            let s = *cx.pick(&SCALES);
            (LANE_ID[..n].iter().map(|c| c * s).collect(), s)
        }
        3 => {
            // coefficients of very different sizes inside one polynomial: a leading (or the constant) coefficient 17-20 orders
            // of magnitude below the rest - negligible by itself, not after multiplication by a large power of knot.x
            let mut v = LANE_ID[..n].to_vec();
            let k = cx.choose(4);
            match k {
                0 => v[n - 1] *= 1e-19,
                1 => v[n - 1] = 8e-20,
                2 => v[0] *= 1e-17,
                _ => { for c in v.iter_mut().take(n - 1) { *c *= 1e-18; } }
            }
            (v, 1.0)
        }
        1 => {
            let w = width(n, thorough);
            ((0..n).map(|_| COEF[cx.choose(w)]).collect(), 1.0)
        }
        _ => {
            let s = SCALES[1 + cx.choose(2)];
            let small = [0.0, 1.0, -0.3333333333333333];
            ((0..n).map(|i| if i < 6 { small[cx.choose(3)] * s } else { LANE_ID[i] * s }).collect(), s)
        }
    }
}

type Int<T> = <T as HasIntegral>::IntegralOf;
type DerInt<T> = <Int<T> as HasDerivative>::DerivativeOf;

fn knots_leaf<T>(c: &[f64], knot: Knot, cx: &mut Cx) -> Verdict
where
    T: Nums + HasIntegral + Copy,
    Int<T>: Nums + Evaluate + HasDerivative + Translate + Copy,
    DerInt<T>: Nums,
{
    let p = T::from_nums(c);
    let n = c.len();
    let detail = |obs: serde_json::Value| json!({"form": format!("Poly{}", n - 1), "coefficients": fjs(c), "knot": {"x": fj(knot.x), "y": fj(knot.y)}, "observation": obs});
    let r = guard(|| {
        let ind = p.indefinite();
        let int = p.integral(knot);
        let der = int.derivative();
        let seg = Segment { end: 3.5, poly: p };
        (ind.nums(), int.nums(), der.nums(), seg.indefinite().nums(), seg.integral(knot).nums())
    });
    cx.evals(5);
    let (ind, int, der, seg_ind, seg_int) = match r {
        Ok(t) => t,
        Err(pn) => return Err(Fail::new(format!("integration panicked: {pn}"), detail(json!(pn)))),
    };
    if let Some(c) = ind.iter().chain(int.iter()).chain(der.iter()).find(|c| !c.is_finite()) {
        return Err(Fail::new("integration of finite coefficients through a finite knot returned a non-finite number", detail(json!({"number": fj(*c), "integral": fjs(&int)}))));
    }
    if ind.len() != n + 1 || int.len() != n + 1 || der.len() != n {
        return Err(Fail::new("integral has the wrong degree", detail(json!({"indefinite": fjs(&ind)}))));
    }
    // (a) indefinite: zero constant, C_{i+1} = c_i/(i+1) within one ulp
    if ind[0] != 0.0 {
        return Err(Fail::new("indefinite() has a non-zero constant term", detail(json!({"indefinite": fjs(&ind)}))));
    }
    for i in 0..n {
        let want = q(c[i]).div_i(i as i64 + 1);
        let err = q(ind[i + 1]).sub(&want).abs();
        if !err.le(&q(exact::ulp(ind[i + 1]))) {
            return Err(Fail::new(format!("indefinite(): coefficient {} is not c_{}/{} within one ulp", i + 1, i, i + 1), detail(json!({"indefinite": fjs(&ind), "expected~": want.to_f64()}))));
        }
    }
    // (b) integral(knot): same higher coefficients, passes through the knot
    if !all_bits_eq(&ind[1..], &int[1..]) {
        return Err(Fail::new("integral(knot) differs from indefinite() in a non-constant coefficient", detail(json!({"indefinite": fjs(&ind), "integral": fjs(&int)}))));
    }
    let (fx, mx) = poly_exact(&int, &dy(knot.x));
    // plus a few subnormal ulps of absolute slack: products that underflow (knot.x = 5e-324) are outside the property
    let tol = mx.add(&dy(knot.y).abs()).mul_pow2(7 - 53).add(&Dy::pow2(-1071));
    if !fx.sub(&dy(knot.y)).abs().le(&tol) {
        return Err(Fail::new("integral(knot) does not pass through the knot (beyond rounding)", detail(json!({"integral": fjs(&int), "F(knot.x)~": fx.to_f64(), "tolerance~": tol.to_f64()}))));
    }
    // (d) differentiating the result returns p within one ulp per coefficient
    for i in 0..n {
        // (a quotient c_i/(i+1) in the subnormal range has lost bits for good - gradual underflow is part of the trusted base -
        // so the round trip may be off by the (i+1)-fold of one subnormal ulp there)
        let slack = (i as f64 + 1.0) * 5e-324 * 1.5;
        if exact::ulp_distance(der[i], c[i]) > 1 && !(der[i] == 0.0 && c[i] == 0.0) && !((der[i] - c[i]).abs() <= slack && c[i].abs() < 1e-300) {
            return Err(Fail::new(format!("integral(knot).derivative() coefficient {i} is not within one ulp of the original"), detail(json!({"derivative_of_integral": fjs(&der)}))));
        }
    }
    // (e) Segment delegates to the piece
    let mut e1 = vec![3.5];
    e1.extend(&ind);
    let mut e2 = vec![3.5];
    e2.extend(&int);
    if !all_bits_eq(&seg_ind, &e1) || !all_bits_eq(&seg_int, &e2) {
        return Err(Fail::new("Segment::indefinite / Segment::integral differ from the piece's own (or change `end`)", detail(json!({"segment_indefinite": fjs(&seg_ind), "segment_integral": fjs(&seg_int), "piece_integral": fjs(&int)}))));
    }
    Ok(())
}

fn definite_leaf<T>(c: &[f64], a: f64, b: f64, cx: &mut Cx) -> Verdict
where
    T: Nums + HasIntegral + Copy,
    Int<T>: Nums + Evaluate,
{
    let p = T::from_nums(c);
    let n = c.len();
    let knot = Knot { x: 0.5, y: -3.0 };
    let detail = |obs: serde_json::Value| json!({"form": format!("Poly{}", n - 1), "coefficients": fjs(c), "a": fj(a), "b": fj(b), "observation": obs});
    let r = guard(|| {
        let int = p.integral(knot);
        (int.nums(), int.evaluate(a), int.evaluate(b))
    });
    cx.evals(3);
    let (int, fa, fb) = match r {
        Ok(t) => t,
        Err(pn) => return Err(Fail::new(format!("integration panicked: {pn}"), detail(json!(pn)))),
    };
    if let Some(c) = int.iter().find(|c| !c.is_finite()) {
        return Err(Fail::new("integral(knot) returned a non-finite coefficient", detail(json!({"number": fj(*c), "integral": fjs(&int)}))));
    }
    // exact integral of p over [a,b]
    let (qa, qb) = (q(a), q(b));
    let mut want = Q::zero();
    let (mut pa, mut pb) = (qa.clone(), qb.clone());
    for i in 0..n {
        want = want.add(&q(c[i]).mul(&pb.sub(&pa)).div_i(i as i64 + 1));
        pa = pa.mul(&qa);
        pb = pb.mul(&qb);
    }
    let (ea, ma) = poly_exact(&int, &dy(a));
    let (eb, mb) = poly_exact(&int, &dy(b));
    let m = ma.add(&mb);
    let tol = m.mul_pow2(2 - 53);
    let diff = eb.sub(&ea);
    if !diff.to_q().sub(&want).abs().le(&tol.to_q()) {
        return Err(Fail::new("F(b)-F(a) (exact, from the returned coefficients) is not the integral of p over [a,b]", detail(json!({"integral": fjs(&int), "F(b)-F(a)~": diff.to_f64(), "exact_integral~": want.to_f64(), "tolerance~": tol.to_f64()}))));
    }
    // through the real evaluate (C01 bound for degree n)
    let tol2 = m.mul_i(4 * (n as i64 + 2) + 4).mul_pow2(-53);
    if !(fa.is_finite() && fb.is_finite()) || !dy(fb).sub(&dy(fa)).to_q().sub(&want).abs().le(&tol2.to_q()) {
        return Err(Fail::new("F.evaluate(b)-F.evaluate(a) is not the integral of p over [a,b] within the evaluation bound", detail(json!({"F(a)": fj(fa), "F(b)": fj(fb), "exact_integral~": want.to_f64(), "tolerance~": tol2.to_f64()}))));
    }
    Ok(())
}

pub fn check(thorough: bool, _seed: u64) -> Check {
    // knot ordinates: the alphabet KY, plus ordinates on / next to the unshifted antiderivative F0(knot.x) = sum c_i x^(i+1)/(i+1)
    // (an implementation that special-cases "the curve already passes through the knot" must still hit the knot)
    const NEAR: [f64; 5] = [0.0, 2.220446049250313e-16, 1e-13, 3e-10, 1e-6];
    let ny = KY.len() + NEAR.len();
    let nk = KX.len() * ny;
    let knots = Phase {
        name: "antiderivative-through-knot",
        units: 8 * nk,
        split: 3,
        body: Box::new(move |unit, cx| {
            let d = unit / nk;
            let k = unit % nk;
            let (c, scale) = pick_coeffs(cx, d + 1, thorough);
            let kx = KX[k / ny];
            let ky = if k % ny < KY.len() {
                KY[k % ny] * scale
            } else {
                // F0(kx) computed by the harness in exact arithmetic, rounded once
                let mut f0 = Q::zero();
                let qx = q(kx);
                let mut p = qx.clone();
                for (i, &ci) in c.iter().enumerate() {
                    f0 = f0.add(&q(ci).mul(&p).div_i(i as i64 + 1));
                    p = p.mul(&qx);
                }
                let f0 = f0.to_f64();
                cx.class(4);
                f0 * (1.0 + NEAR[k % ny - KY.len()])
            };
            let knot = Knot { x: kx, y: ky };
            if scale != 1.0 {
                cx.class(3);
            }
            if c.iter().filter(|v| **v != 0.0).count() >= 2 && knot.x != 0.0 && knot.x != 2.0 {
                cx.nontrivial();
            }
            cx.class(if knot.x == 0.0 { 0 } else if knot.x < 0.0 { 1 } else { 2 });
            if cx.sampling() {
                cx.sample(json!({"degree": d, "coefficients": c, "knot": [knot.x, knot.y]}));
            }
            by_degree7!(d, knots_leaf(&c, knot, cx))
        }),
        classes: vec![("knot_x_zero", true), ("knot_x_negative", true), ("knot_x_positive", true), ("scaled_by_2^-60_or_2^40", true), ("knot_on_or_next_to_the_unshifted_antiderivative", true)],
        bounds: json!({"degrees": "0..7", "coefficients": format!("lane-identifier vector + cube over the first w of {{0,1,-1,0.1,-1/3,7.25e5}}: w=6 up to degree 4 (5 thorough), w={} above", if thorough {5} else {4}),
            "knots": "x in {0,2,-2,0.5,-7.3,1e3,1e-17,-1e-17,5e-324,1e5} x y in {0,5,-1e6} (scaled like the coefficients) and y = F0(x)*(1+d), d in {0,2^-52,1e-13,3e-10,1e-6} (knot on / next to the unshifted antiderivative)", "coefficient_ratios": "lane-identifier vector with the leading / the constant coefficient 17-20 orders of magnitude below the rest, or all but the leading one", "scales": "lane-identifier vector and the cube over {0,1,-1/3} also multiplied by 2^-60 and 2^40", "oracle": "exact rational c_i/(i+1); exact dyadic value of the returned polynomial at knot.x"}),
    };
    let pairs: Vec<(f64, f64)> = AB.iter().flat_map(|&a| AB.iter().filter(move |&&b| b != a).map(move |&b| (a, b))).collect();
    let np = pairs.len();
    let definite = Phase {
        name: "definite-integrals",
        units: 8 * np,
        split: 3,
        body: Box::new(move |unit, cx| {
            let d = unit / np;
            let (a, b) = pairs[unit % np];
            let (c, _scale) = pick_coeffs(cx, d + 1, thorough);
            if c.iter().filter(|v| **v != 0.0).count() >= 2 {
                cx.nontrivial();
            }
            cx.class(if a < b { 0 } else { 1 });
            if cx.sampling() {
                cx.sample(json!({"degree": d, "coefficients": c, "a": a, "b": b}));
            }
            by_degree7!(d, definite_leaf(&c, a, b, cx))
        }),
        classes: vec![("a<b", true), ("a>b", true)],
        bounds: json!({"degrees": "0..7", "coefficients": "as in the first phase", "(a,b)": "all ordered pairs of distinct values from {-2.5,0,0.3,1,7}", "oracle": "exact rational integral"}),
    };
    // knots whose abscissa is so large / small that x^degree over- or underflows although every power the evaluation scheme of the
    // result type forms (x^2, x^4; x^8 only for Poly8) and every term c_i x^(i+1)/(i+1) is an ordinary number
    let xs_ext: Vec<f64> = vec![1e50, -1e60, 1e76, 1e-50, -1e-70, 3e37];
    let nxe = xs_ext.len();
    let extreme = Phase {
        name: "extreme-knot-abscissae",
        units: 8 * nxe,
        split: 1,
        body: Box::new(move |unit, cx| {
            let d = unit / nxe;
            let x = xs_ext[unit % nxe];
            // the result type Poly(d+1) forms x^8 only for d = 7: keep x^8 in range there
            if d == 7 && !(x.abs() < 1e38 && x.abs() > 1e-38) {
                return Ok(());
            }
            let amp = [0.0, 1.0, -2.5, 7.0];
            let c: Vec<f64> = (0..=d)
                .map(|i| {
                    let a = *cx.pick(&amp);
                    let ci = a / x.powi(i as i32 + 1) * (i as f64 + 1.0);
                    if ci.is_normal() && x.powi(i as i32 + 1).is_normal() { ci } else { 0.0 }
                })
                .collect();
            let knot = Knot { x, y: [0.0, 1.0, -3.5][cx.choose(3)] };
            if c.iter().filter(|v| **v != 0.0).count() >= 2 {
                cx.nontrivial();
            }
            if cx.sampling() {
                cx.sample(json!({"degree": d, "coefficients": fjs(&c), "knot": [fj(knot.x), fj(knot.y)]}));
            }
            by_degree7!(d, knots_leaf(&c, knot, cx))
        }),
        classes: vec![("knot_x_zero", false), ("knot_x_negative", false), ("knot_x_positive", false), ("scaled_by_2^-60_or_2^40", false), ("knot_on_or_next_to_the_unshifted_antiderivative", false)],
        bounds: json!({"degrees": "0..7", "knot.x": "{1e50,-1e60,1e76,1e-50,-1e-70,3e37} (degree 7: only 3e37, its result type forms x^8)", "coefficients": "c_i = (i+1) a_i / x^(i+1), a_i in {0,1,-2.5,7} (zero when not a normal number): every term of F(knot.x) is of ordinary size", "knot.y": "{0,1,-3.5}"}),
    };
    // knot abscissae swept through every whole number -300..300, every power of two 2^-20..2^40 of both signs, and halves:
    // special paths for "nice" abscissae (integer powers, exact tables) end somewhere
    let sweep = Phase {
        name: "whole-number-and-power-of-two-knot-abscissae",
        units: 8,
        split: 1,
        body: Box::new(move |unit, cx| {
            let d = unit;
            let j = cx.choose(601 + 122 + 40);
            let x = if j < 601 {
                j as f64 - 300.0
            } else if j < 601 + 122 {
                let k = (j - 601) as i32;
                (if k % 2 == 0 { 1.0 } else { -1.0 }) * 2f64.powi(k / 2 - 20)
            } else {
                (j - 601 - 122) as f64 * 12.5 + 0.5
            };
            let c: Vec<f64> = match cx.choose(2) {
                0 => (0..=d).map(|i| [1.5, -2.25, 3.125, -4.0625, 5.5, -6.75, 7.875, -8.9375][i] / 2f64.powi(8 * i as i32)).collect(),
                _ => (0..=d).map(|i| if i % 2 == 0 { 1.0 } else { -0.75 } / 3f64.powi(5 * i as i32)).collect(),
            };
            let knot = Knot { x, y: 5.0 };
            cx.nontrivial();
            cx.class(if x == 0.0 { 0 } else if x < 0.0 { 1 } else { 2 });
            if cx.sampling() {
                cx.sample(json!({"degree": d, "coefficients": fjs(&c), "knot": [fj(knot.x), fj(knot.y)]}));
            }
            by_degree7!(d, knots_leaf(&c, knot, cx))
        }),
        classes: vec![("knot_x_zero", false), ("knot_x_negative", false), ("knot_x_positive", false), ("scaled_by_2^-60_or_2^40", false), ("knot_on_or_next_to_the_unshifted_antiderivative", false)],
        bounds: json!({"degrees": "0..7", "knot.x": "every whole number -300..300; +-2^k for k = -20..40; 0.5 + 12.5 j for j < 40", "coefficients": "two vectors whose i-th coefficient shrinks like 2^-8i resp. 3^-5i (terms of comparable size at |x| of a few hundred)", "knot.y": "5"}),
    };
    // coefficients in the lowest normal binades (between MIN_POSITIVE and 16*MIN_POSITIVE): their quotients by 2..8 are subnormal
    let lowb = Phase {
        name: "coefficients-in-the-lowest-normal-binades",
        units: 8,
        split: 1,
        body: Box::new(move |unit, cx| {
            let d = unit;
            let lane = cx.choose(d + 1);
            let v = [3e-308, -3e-308, 2.3e-308, 6e-308, -1.2e-307, 1.7e-307, -3.4e-307, 2.2250738585072014e-308][cx.choose(8)];
            let others = cx.choose(2);
            let c: Vec<f64> = (0..=d).map(|i| if i == lane { v } else if others == 0 { 0.0 } else { [4e-308, -5e-308, 7e-308, 1e-307][i % 4] }).collect();
            let knot = Knot { x: [0.0, 1.0, -0.5][cx.choose(3)], y: 0.0 };
            cx.nontrivial();
            cx.class(if knot.x == 0.0 { 0 } else if knot.x < 0.0 { 1 } else { 2 });
            if cx.sampling() {
                cx.sample(json!({"degree": d, "coefficients": fjs(&c), "knot": [fj(knot.x), fj(knot.y)]}));
            }
            by_degree7!(d, knots_leaf(&c, knot, cx))
        }),
        classes: vec![("knot_x_zero", false), ("knot_x_negative", false), ("knot_x_positive", false), ("scaled_by_2^-60_or_2^40", false), ("knot_on_or_next_to_the_unshifted_antiderivative", false)],
        bounds: json!({"degrees": "0..7", "coefficients": "one lane (every lane) in {3e-308,-3e-308,2.3e-308,6e-308,-1.2e-307,1.7e-307,-3.4e-307,MIN_POSITIVE}, the others zero or of the same tiny size", "knot": "x in {0,1,-0.5}, y = 0"}),
    };
    // knots whose abscissa is next to (not on) a non-zero root of the unshifted antiderivative F0: F0(knot.x) is small by cancellation
    let near_roots: Vec<(Vec<f64>, f64)> = vec![
        (vec![1.0, 1.0], -2.0),                 // F0 = x + x^2/2, root -2
        (vec![2.0, -3.0], 4.0 / 3.0),           // F0 = 2x - 1.5x^2, root 4/3
        (vec![1.0, 0.0, -3.0], 1.0),            // F0 = x - x^3, roots +-1
        (vec![1.0, 0.0, -3.0], -1.0),
        (vec![-6.0, 0.0, 0.0, 4.0], -(6.0f64.powf(0.25))), // F0 = -6x + x^4, root -6^(1/4)... (irrational: the float next to it)
        (vec![0.0, -8.0, 0.0, 0.0, 5.0], -2.0f64.sqrt().sqrt() * 2.0f64.powf(0.5)), // F0 = -4x^2 + x^5
        (vec![3.0, 2.0, 1.0], -1.5),            // F0 = 3x + x^2 + x^3/3 (no nice root: ordinary point as a control)
    ];
    let nnr = near_roots.len();
    let roots_ph = Phase {
        name: "knots-next-to-roots-of-the-antiderivative",
        units: nnr,
        split: 0,
        body: Box::new(move |unit, cx| {
            let (c, root) = &near_roots[unit];
            let delta = [0.0, 1e-9, -1e-9, 1e-12, -3e-11, 2.220446049250313e-16, 1e-7][cx.choose(7)];
            let sc = [1.0, 8.673617379884035e-19, 3e6][cx.choose(3)];
            let c: Vec<f64> = c.iter().map(|v| v * sc).collect();
            let knot = Knot { x: root * (1.0 + delta), y: [0.0, 3.0, -0.25][cx.choose(3)] * sc };
            cx.nontrivial();
            if cx.sampling() {
                cx.sample(json!({"coefficients": fjs(&c), "knot": [fj(knot.x), fj(knot.y)]}));
            }
            by_degree7!(c.len() - 1, knots_leaf(&c, knot, cx))
        }),
        classes: vec![("knot_x_zero", false), ("knot_x_negative", false), ("knot_x_positive", false), ("scaled_by_2^-60_or_2^40", false), ("knot_on_or_next_to_the_unshifted_antiderivative", false)],
        bounds: json!({"polynomials": "1+x, 2-3x, 1-3x^2, -6+4x^3, -8x+5x^4, 3+2x+x^2 (x scales 1, 2^-60, 3e6)", "knot.x": "root of the antiderivative times (1+d), d in {0, +-1e-9, 1e-12, -3e-11, 2^-52, 1e-7}", "knot.y": "{0,3,-0.25} (scaled)"}),
    };
    Check {
        id: "C07",
        rule: "choice tree: (degree, knot) resp. (degree, (a,b)) unit x one coefficient per lane; each leaf runs the real indefinite / integral / derivative / Segment::integral; non-trivial = >=2 non-zero coefficients (and knot.x not in {0,2} in the first phase)".into(),
        assumptions: vec!["one ulp = distance to the neighbouring float of the returned coefficient".into()],
        phases: vec![knots, definite, extreme, roots_ph, sweep, lowb],
        extra: Default::default(),
        controls: vec![],
    }
}
