//! The ambient alphabet: other use of the library's public API on the same thread, under which every phase of every
//! check is explored again (xplore's ambient pass). Each activity returns the objects it built; the pass either keeps
//! them alive while the executions run or drops them first.
use crate::common::*;
use approx::{AbsDiffEq, RelativeEq};
use std::any::Any;
use xplore::{guard, Ambient};

fn leaked_pw() -> &'static Piecewise<Poly1> {
    Box::leak(Box::new(poly1_pw(&[-1.0, 0.5, 2.0, 7.0])))
}

fn live_evaluator() -> Box<dyn Any> {
    let p = leaked_pw();
    let mut e = PiecewiseEvaluator::new(&p.segments);
    let v = [e.evaluate(-3.0), e.evaluate(0.5), e.evaluate(1.0)];
    Box::new((e, v))
}
fn evaluators_dropped_in_creation_order() -> Box<dyn Any> {
    let p = leaked_pw();
    let q = leaked_pw();
    let mut e1 = PiecewiseEvaluator::new(&p.segments);
    let mut e2 = PiecewiseEvaluator::new(&q.segments);
    let v = [e1.evaluate(0.0), e2.evaluate(3.0), e1.evaluate(9.0)];
    drop(e1);
    drop(e2);
    Box::new(v)
}
fn evaluator_with_odd_queries() -> Box<dyn Any> {
    let p = leaked_pw();
    let mut e = PiecewiseEvaluator::new(&p.segments);
    let v = [e.evaluate(f64::NAN), e.evaluate(f64::INFINITY), e.evaluate(-5.0), e.evaluate(2.0), e.evaluate(f64::NEG_INFINITY)];
    Box::new((e, v))
}
fn piecewise_evaluations() -> Box<dyn Any> {
    let p = poly3_pw(&[0.0, 1.0, 4.0]);
    let l = logpoly8_pw(&[1.0, 3.0]);
    let a: Vec<f64> = [-2.0, 0.0, 0.5, 1.0, 9.0].iter().map(|&x| p.evaluate(x)).collect();
    let b: Vec<f64> = p.evaluate_v(vec![-1.0, 0.5, 0.25, 3.0, 8.0]).collect();
    let c: Vec<f64> = [0.5, 2.0, 1e6].iter().map(|&x| l.evaluate(x)).collect();
    Box::new((p, l, a, b, c))
}
fn curve_construction() -> Box<dyn Any> {
    let ks: Vec<Knot> = [(0.0, 1.0), (1.0, 3.0), (2.5, 2.0), (4.0, 2.0), (6.0, 5.0)].iter().map(|&(x, y)| Knot { x, y }).collect();
    let s = constrained_spline(&ks);
    let l = linear(&ks);
    Box::new((s, l))
}
fn calculus() -> Box<dyn Any> {
    let p = poly3_pw(&[0.0, 1.0, 4.0]);
    let i = p.integral(Knot { x: 0.0, y: 0.0 });
    let j = p.indefinite();
    let d = p.derivative();
    let q = Poly4([1.0, -2.0, 0.5, 0.25, 3.0]);
    let qi = q.integral(Knot { x: 1.0, y: 2.0 });
    let lg = Log(Poly4([1.0, 0.5, -0.25, 0.125, 0.01])).indefinite();
    Box::new((i, j, d, qi, lg))
}
fn merges() -> Box<dyn Any> {
    let q = |ends: &[f64], m: f64| Piecewise {
        segments: ends.iter().enumerate().map(|(i, &e)| Segment { end: e, poly: IntOfLogPoly4 { k: m + i as f64, coeffs: [0.5 * m, -0.25, 0.125 * i as f64, 0.01], u: 0.75 } }).collect(),
    };
    let (a, b) = (q(&[0.0, 1.0, 4.0], 1.0), q(&[0.5, 1.0, 2.0, 9.0], 2.0));
    let s = &a + &b;
    let t = &b - &a;
    Box::new((a, b, s, t))
}
fn generation() -> Box<dyn Any> {
    use arbitrary::{Arbitrary, Unstructured};
    let bytes: Vec<u8> = (0..200u32).map(|i| (i.wrapping_mul(97).wrapping_add(13) % 251) as u8).collect();
    let mut u = Unstructured::new(&bytes);
    let a = Piecewise::<Poly2>::arbitrary(&mut u).ok();
    let mut u2 = Unstructured::new(&bytes[..40]);
    let b = Poly5::arbitrary(&mut u2).ok();
    Box::new((a, b))
}
fn log_integral_evaluations() -> Box<dyn Any> {
    let f = IntOfLogPoly4 { k: 1.0, coeffs: [0.5, -0.25, 0.125, 0.01], u: 0.75 };
    let v: Vec<f64> = [1e-300, 1e-3, 1.0, 2.5, 1e10, 1e300].iter().map(|&x| f.evaluate(x)).collect();
    let g = IntOfLog { k: 0.5, poly: Poly3([1.0, 2.0, 3.0, 4.0]) };
    let w: Vec<f64> = [0.1, 1.0, 50.0].iter().map(|&x| g.evaluate(x)).collect();
    Box::new((v, w))
}
fn operators_and_comparisons() -> Box<dyn Any> {
    let mut a = poly1_pw(&[0.0, 1.0]);
    let mut b = a.clone() * 3.0;
    a *= 1e-310;
    let n = -b.clone();
    let t = b.translate(2.0);
    let e = (a.abs_diff_eq(&b, 1e-3), b.relative_eq(&n, 1e-9, 1e-9), Poly2([1.0, 2.0, 3.0]) + Poly2([5e-324, -2.0, 1e308]));
    Box::new((a, b, n, t, e))
}
fn caught_panics() -> Box<dyn Any> {
    // panics raised inside the library and caught by the caller must not leave anything behind either
    let empty: Piecewise<Poly1> = Piecewise { segments: vec![] };
    let r1 = guard(|| empty.evaluate(1.0)).is_err();
    let r2 = guard(|| empty.evaluate_v(vec![1.0]).count()).is_err();
    let r3 = guard(|| constrained_spline(&[Knot { x: 0.0, y: 0.0 }]).segments.len()).is_err();
    let r4 = guard(|| PiecewiseEvaluator::new(&empty.segments).evaluate(0.0)).is_err();
    Box::new((r1, r2, r3, r4))
}

pub fn alphabet() -> Vec<Ambient> {
    vec![
        Ambient { name: "live-evaluator", what: "a PiecewiseEvaluator that answered three queries", enter: live_evaluator },
        Ambient { name: "evaluators-dropped-in-creation-order", what: "two overlapping PiecewiseEvaluators, dropped first-created-first", enter: evaluators_dropped_in_creation_order },
        Ambient { name: "evaluator-odd-queries", what: "a PiecewiseEvaluator queried with NaN, +inf, a backward step and -inf", enter: evaluator_with_odd_queries },
        Ambient { name: "piecewise-evaluations", what: "Piecewise::evaluate / evaluate_v on polynomial and Log pieces", enter: piecewise_evaluations },
        Ambient { name: "curve-construction", what: "constrained_spline and linear on five knots", enter: curve_construction },
        Ambient { name: "calculus", what: "integral, indefinite and derivative of piecewise, polynomial and Log forms", enter: calculus },
        Ambient { name: "merges", what: "piecewise + piecewise and piecewise - piecewise (quartic log-integral pieces)", enter: merges },
        Ambient { name: "generation", what: "Arbitrary generation of a piecewise function and a polynomial", enter: generation },
        Ambient { name: "log-integral-evaluations", what: "IntOfLogPoly4 / IntOfLog evaluated from 1e-300 to 1e300", enter: log_integral_evaluations },
        Ambient { name: "operators-and-comparisons", what: "scalar operators (incl. a subnormal scale), negation, translation, approx comparisons", enter: operators_and_comparisons },
        Ambient { name: "caught-panics", what: "four library panics on ill-formed input, caught by the caller", enter: caught_panics },
    ]
}
