//! Shared core of C04 / C05: knot-list enumeration and exact analysis of constrained_spline's result
//! against the exact (rational-arithmetic) Kruger constrained spline.
use crate::common::*;
use exact::{q, Q};
use serde_json::{json, Value};
use xplore::*;

pub const Y_ALPHA: [f64; 5] = [0.0, 1.0, -2.0, 3.5, 1.000000001];
pub const Y_ALPHA4: [f64; 4] = [0.0, 1.0, -2.0, 1.000000001];
pub const DELTA: [f64; 3] = [0.0, 1e-9, -1e-12];
pub const BASE_EVEN: [f64; 6] = [0.0, 1.0, 2.0, 3.0, 4.0, 5.0];
pub const BASE_UNEVEN: [f64; 6] = [0.0, 0.5, 0.75, 3.0, 10.0, 10.125];

pub fn subsets(n: usize, k: usize) -> Vec<Vec<usize>> {
    fn rec(n: usize, k: usize, from: usize, cur: &mut Vec<usize>, out: &mut Vec<Vec<usize>>) {
        if cur.len() == k {
            out.push(cur.clone());
            return;
        }
        for i in from..n {
            cur.push(i);
            rec(n, k, i + 1, cur, out);
            cur.pop();
        }
    }
    let mut out = vec![];
    rec(n, k, 0, &mut vec![], &mut out);
    out
}
pub fn transform(x: f64, t: usize) -> f64 {
    match t {
        0 => x,
        1 => x + 100.0,
        2 => x - 7.5,
        3 => x * 2f64.powi(-10),
        4 => x * 1000.0,
        5 => x * 8.673617379884035e-19, // 2^-60: same conditioning, absolute spacings far below machine epsilon
        6 => x * 1099511627776.0,       // 2^40
        _ => 1000.0 + x,
    }
}
pub const TRANSFORMS: [&str; 8] = ["x", "x+100", "x-7.5", "x*2^-10", "x*1000", "x*2^-60", "x*2^40", "1000+x"];

/// all abscissa lists: (pattern description, xs)
/// returns the lists and the index of the first "regularity" list (those take the ordinate alphabet at one scale only)
pub fn abscissa_lists(thorough: bool) -> (Vec<Vec<f64>>, usize) {
    let mut out = vec![];
    let maxn = if thorough { 6 } else { 5 };
    let nt = if thorough { 8 } else { 7 };
    for base in [&BASE_EVEN, &BASE_UNEVEN] {
        for n in 3..=maxn {
            for s in subsets(6, n) {
                for t in 0..nt {
                    out.push(s.iter().map(|&i| transform(base[i], t)).collect());
                }
            }
        }
    }
    // joint extreme scalings: abscissae scaled by 2^-340 / 2^340 here, ordinates by 2^-760 / 2^700 in pick_ordinates
    // (every quantity of the construction stays a normal number while products of an x-difference and a y-difference do not)
    for n in 3..=5 {
        for s in subsets(6, n) {
            out.push(s.iter().map(|&i| BASE_EVEN[i] * 2f64.powi(-340)).collect());
            out.push(s.iter().map(|&i| BASE_UNEVEN[i] * 2f64.powi(340)).collect());
        }
    }
    // long knot lists around size thresholds: unit spacing and an uneven repeating spacing pattern, three offsets / scalings
    for n in [8usize, 9, 12, 16, 17, 33, 34, 65, 129, 130, 257].into_iter().chain(if thorough { vec![10usize, 32, 64, 66, 131, 258, 513] } else { vec![] }) {
        let unit: Vec<f64> = (0..n).map(|i| i as f64).collect();
        let gaps = [0.5, 0.25, 2.25, 7.0, 0.125];
        let mut acc = 0.0;
        let uneven: Vec<f64> = (0..n).map(|i| { let v = acc; acc += gaps[i % gaps.len()]; v }).collect();
        for base in [unit, uneven] {
            out.push(base.clone());
            out.push(base.iter().map(|x| x - 7.5).collect());
            out.push(base.iter().map(|x| x * 1e-6).collect());
            out.push(base.iter().map(|x| x * 3e5).collect());
        }
    }
    let reduced_from = out.len();
    // regularity of the grid as a dimension of its own (fast paths for evenly spaced tables):
    // (a) every sequence of interval widths over {1,2,3} - includes uneven grids whose first, last and mean width coincide;
    let wl = if thorough { 5 } else { 4 };
    for len in 3..=wl {
        for code in 0..3usize.pow(len as u32) {
            let w: Vec<f64> = (0..len).map(|i| [1.0, 2.0, 3.0][(code / 3usize.pow(i as u32)) % 3]).collect();
            if w.iter().all(|v| *v == w[0]) {
                continue; // even grids are in the subsets above
            }
            let mut x = 0.0;
            let mut xs = vec![x];
            for v in &w {
                x += v;
                xs.push(x);
            }
            out.push(xs);
        }
    }
    // (b) almost even grids: one knot of an even grid moved by a relative 1e-9, -3e-11 or 2e-13 of the width (binary and
    //     decimal widths), and an even grid in a width that is not representable (rounding noise only)
    for n in 3..=5usize {
        for j in 0..n {
            for d in [1e-9, -3e-11, 2e-13] {
                for h in [1.0, 0.1] {
                    out.push((0..n).map(|i| (i as f64 + if i == j { d } else { 0.0 }) * h).collect());
                }
            }
        }
        out.push((0..n).map(|i| 0.3 + i as f64 * 0.1).collect());
        out.push((0..n).map(|i| 1e6 + i as f64 * 0.1).collect());
        // far from the origin on either side (tens of thousands to millions of widths away), both signs of the abscissae
        for off in [2e4, 1e6] {
            for h in [1.0, 0.1] {
                out.push((0..n).map(|i| off + i as f64 * h).collect());
                out.push((0..n).map(|i| -off - (n - 1 - i) as f64 * h).collect());
            }
        }
    }
    // neighbouring widths that differ by 17 orders of magnitude (secant slopes whose ratio exceeds 2^53 for ordinary ordinates)
    out.push(vec![0.0, 1e-17, 1.0, 2.0]);
    out.push(vec![-1.0, 0.0, 3e-18, 5.0]);
    out.push(vec![0.0, 1.0, 1.0 + 2f64.powi(-50), 3.0, 4.0]);
    out.push(vec![-2.0, -1e-17, 0.0, 1e-17, 2.0]);
    (out, reduced_from)
}

/// ordinate patterns for long knot lists
fn long_pattern(p: usize, i: usize, x: f64) -> f64 {
    match p {
        0 => (i * i) as f64,                                  // convex monotone
        1 => if i % 2 == 0 { 1.0 } else { -1.0 },             // zig-zag: every interior knot an extremum
        2 => ((i / 3) as f64) * 1.5,                          // staircase: plateaus of length 3
        3 => (((i * 7919) % 13) as f64) * 0.5,                // irregular: extrema, plateaus and monotone runs mixed
        4 => 2.0 * x + 1.0,                                   // collinear
        _ => 100.0 - (i as f64).sqrt() * 3.0 + if i % 5 == 0 { 1e-9 } else { 0.0 }, // decreasing with tiny bumps
    }
}

/// ordinates for a given abscissa list, chosen through the explorer
pub fn pick_ordinates(cx: &mut Cx, xs: &[f64], reduced: bool) -> (Vec<f64>, &'static str) {
    let n = xs.len();
    if reduced {
        if (n <= 4 || (n == 5 && cx.tier_thorough)) && cx.flag() {
            // ordinates a few ulps apart (a noisy plateau), at three magnitudes
            let base: f64 = [1.0, 1e9, -0.3][cx.choose(3)];
            return ((0..n).map(|_| f64::from_bits(base.to_bits() + [0u64, 1, 5, 2][cx.choose(4)])).collect(), "alphabet");
        }
        // (only on grids of ordinary size and spacing: with widths of 1e-17 or offsets of 1e6 the exact spline's own coefficients
        // leave the double range)
        let ordinary = xs.windows(2).all(|w| w[1] - w[0] >= 0.05) && xs.iter().all(|x| x.abs() <= 1e3);
        if n >= 4 && ordinary && cx.flag() {
            // an ordinary ramp with one ordinate 150..170 orders of magnitude away (first or last knot): the secants elsewhere must
            // not be affected by the steepest one
            let big = [1e170, -1e150][cx.choose(2)];
            let at_end = cx.flag();
            let step = [1.0, 0.0, -2.0][cx.choose(3)];
            return ((0..n).map(|i| if (at_end && i == n - 1) || (!at_end && i == 0) { big } else { 1.0 + step * i as f64 + if i % 2 == 1 { 0.5 } else { 0.0 } }).collect(), "alphabet");
        }
        return ((0..n).map(|_| *cx.pick(&Y_ALPHA)).collect(), "alphabet");
    }
    if n > 6 {
        let p = cx.choose(6);
        let shift = cx.choose(7);
        let scale = [1.0, 1e-3, 1e6, 8.673617379884035e-19][cx.choose(4)];
        return ((0..n).map(|i| long_pattern(p, i + shift, xs[i]) * scale).collect(), if p == 4 { "near-collinear" } else { "alphabet" });
    }
    let extreme = xs[n - 1].abs() < 1e-90 || xs[n - 1].abs() > 1e90;
    let fam = if extreme { 0 } else { cx.choose(2) };
    let scale = if xs[n - 1].abs() < 1e-90 {
        2f64.powi(-760) // joint extreme scaling (tiny x with tinier y)
    } else if xs[n - 1].abs() > 1e90 {
        2f64.powi(700)
    } else {
        [1.0, 1e-3, 1e6, 8.673617379884035e-19][cx.choose(4)]
    };
    if fam == 0 {
        // (quick tier: lists of five knots take four of the five alphabet values - 1024 instead of 3125 vectors per list and scale)
        let alpha: &[f64] = if n >= 5 && !cx.tier_thorough { &Y_ALPHA4 } else { &Y_ALPHA };
        ((0..n).map(|_| *cx.pick(alpha) * scale).collect(), "alphabet")
    } else {
        ((0..n).map(|i| (2.0 * xs[i] + 1.0 + *cx.pick(&DELTA)) * scale).collect(), "near-collinear")
    }
}

pub struct Analysis {
    pub n: usize,
    pub xs: Vec<f64>,
    pub ys: Vec<f64>,
    pub secants: Vec<Q>,
    pub slopes: Vec<Q>, // exact Kruger knot slopes
    pub coeffs: Vec<[f64; 4]>,
    pub ends: Vec<f64>,
    pub tau_val: Vec<Q>,
    pub tau_der: Vec<Q>,
    pub pw: Piecewise<Poly3>,
}

fn cubic(c: &[f64; 4], x: &Q) -> Q {
    // a + b x + c x^2 + d x^3 exactly
    let mut s = q(c[3]);
    for i in (0..3).rev() {
        s = s.mul(x).add(&q(c[i]));
    }
    s
}
pub fn dcubic(c: &[f64; 4], x: &Q) -> Q {
    q(c[3]).mul_i(3).mul(x).add(&q(c[2]).mul_i(2)).mul(x).add(&q(c[1]))
}

pub fn detail(xs: &[f64], ys: &[f64], obs: Value) -> Value {
    json!({"knots_x": fjs(xs), "knots_y": fjs(ys), "observation": obs})
}

/// exact (rational) Kruger secant slopes and knot slopes — the reference model, independent of the subject
pub fn exact_kruger(qx: &[Q], qy: &[Q]) -> (Vec<Q>, Vec<Q>) {
    let n = qx.len();
    let secants: Vec<Q> = (0..n - 1).map(|i| qy[i + 1].sub(&qy[i]).div(&qx[i + 1].sub(&qx[i]))).collect();
    let mut slopes = vec![Q::zero(); n];
    for i in 1..n - 1 {
        let (a, b) = (&secants[i - 1], &secants[i]);
        slopes[i] = if a.mul(b).signum() <= 0 { Q::zero() } else { a.mul(b).mul_i(2).div(&a.add(b)) };
    }
    slopes[0] = secants[0].mul_i(3).div_i(2).sub(&slopes[1].div_i(2));
    slopes[n - 1] = secants[n - 2].mul_i(3).div_i(2).sub(&slopes[n - 2].div_i(2));
    (secants, slopes)
}

/// run the real constrained_spline and compute the exact reference data
pub fn analyse(xs: &[f64], ys: &[f64]) -> Result<Analysis, Fail> {
    let n = xs.len();
    let knots: Vec<Knot> = xs.iter().zip(ys).map(|(&x, &y)| Knot { x, y }).collect();
    let pw = guard(|| constrained_spline(&knots)).map_err(|p| Fail::new(format!("constrained_spline panicked on strictly increasing finite knots: {p}"), detail(xs, ys, json!(p))))?;
    if pw.segments.len() != n - 1 {
        return Err(Fail::new("constrained_spline does not return one cubic per knot interval", detail(xs, ys, json!({"segments": pw.segments.len()}))));
    }
    if let Some(c) = pw.segments.iter().flat_map(|s| s.poly.0.iter()).find(|c| !c.is_finite()) {
        return Err(Fail::new("constrained_spline returned a non-finite coefficient for finite, strictly increasing knots", detail(xs, ys, json!({"coefficient": fj(*c), "returned_cubics": pw.segments.iter().map(|s| fjs(&s.poly.0)).collect::<Vec<_>>()}))));
    }
    // the same knots in a slice that sits at an address 8 (mod 16) (not a Vec's buffer): the result must not depend on it
    {
        let placed = Placed::new(&knots);
        let pw2 = guard(|| constrained_spline(placed.slice())).map_err(|p| Fail::new(format!("constrained_spline panicked on a knot slice placed at an address 8 (mod 16): {p}"), detail(xs, ys, json!(p))))?;
        let same = pw2.segments.len() == pw.segments.len() && pw2.segments.iter().zip(&pw.segments).all(|(a, b)| a.end.to_bits() == b.end.to_bits() && all_bits_eq(&a.poly.0, &b.poly.0));
        if !same {
            return Err(Fail::new("constrained_spline's result depends on where the knot slice sits in memory (address 8 mod 16 against a Vec's buffer)", detail(xs, ys, json!({"from_vec": pw.segments.iter().map(|s| fjs(&s.poly.0)).collect::<Vec<_>>(), "from_placed_slice": pw2.segments.iter().map(|s| fjs(&s.poly.0)).collect::<Vec<_>>()}))));
        }
    }
    let qx: Vec<Q> = xs.iter().map(|&x| q(x)).collect();
    let qy: Vec<Q> = ys.iter().map(|&y| q(y)).collect();
    let (secants, slopes) = exact_kruger(&qx, &qy);
    let mut tau_val = vec![];
    let mut tau_der = vec![];
    let scale = q(2f64.powi(-43)); // 2^10 * 2^-53
    for i in 0..n - 1 {
        let h = qx[i + 1].sub(&qx[i]);
        let xmax = qx[i].abs().max(&qx[i + 1].abs());
        let r1 = Q::from_i64(1).add(&xmax.div(&h)); // 1 + r
        let s = secants[i].abs().max(&slopes[i].abs()).max(&slopes[i + 1].abs());
        let y = qy[i].abs().max(&qy[i + 1].abs());
        let mval = y.add(&s.mul(&h).mul_i(6).mul(&r1).mul(&r1).mul(&r1));
        let mder = s.mul_i(12).mul(&r1).mul(&r1);
        tau_val.push(mval.mul(&scale));
        tau_der.push(mder.mul(&scale));
    }
    Ok(Analysis {
        n,
        xs: xs.to_vec(),
        ys: ys.to_vec(),
        secants,
        slopes,
        coeffs: pw.segments.iter().map(|s| s.poly.0).collect(),
        ends: pw.segments.iter().map(|s| s.end).collect(),
        tau_val,
        tau_der,
        pw,
    })
}

impl Analysis {
    pub fn value(&self, seg: usize, x: f64) -> Q {
        cubic(&self.coeffs[seg], &q(x))
    }
    pub fn slope(&self, seg: usize, x: f64) -> Q {
        dcubic(&self.coeffs[seg], &q(x))
    }
    pub fn d(&self, obs: Value) -> Value {
        json!({"knots_x": fjs(&self.xs), "knots_y": fjs(&self.ys), "returned_cubics": self.coeffs.iter().map(|c| fjs(c)).collect::<Vec<_>>(),
               "exact_knot_slopes~": self.slopes.iter().map(|s| s.to_f64()).collect::<Vec<_>>(), "observation": obs})
    }
    /// Hermite data of every piece against the exact spline (shared by C04 and C05): Err((what, observation))
    pub fn hermite(&self, cx: &mut Cx) -> Result<(), (String, Value)> {
        for i in 0..self.n - 1 {
            for (which, k) in [("left", i), ("right", i + 1)] {
                let v = self.value(i, self.xs[k]);
                let err = v.sub(&q(self.ys[k])).abs();
                if !self.tau_val[i].is_zero() {
                    cx.ratio(err.to_f64() / self.tau_val[i].to_f64());
                }
                if !err.le(&self.tau_val[i]) {
                    return Err((format!("cubic {i} does not pass through its {which} knot"), json!({"piece": i, "knot": k, "p(x_knot)~": v.to_f64(), "error~": err.to_f64(), "tolerance~": self.tau_val[i].to_f64()})));
                }
                let g = self.slope(i, self.xs[k]);
                let err = g.sub(&self.slopes[k]).abs();
                if !self.tau_der[i].is_zero() {
                    cx.ratio(err.to_f64() / self.tau_der[i].to_f64());
                }
                if !err.le(&self.tau_der[i]) {
                    return Err((format!("slope of cubic {i} at its {which} knot is not the exact Kruger knot slope"), json!({"piece": i, "knot": k, "p'(x_knot)~": g.to_f64(), "exact_slope~": self.slopes[k].to_f64(), "error~": err.to_f64(), "tolerance~": self.tau_der[i].to_f64()})));
                }
            }
        }
        Ok(())
    }
}
