//! C03 — PiecewiseEvaluator agrees with direct evaluation on every query history (engine A:
//! every history up to a depth, no hook). C16 — the same engine with NaN queries in the
//! alphabet, plus no-panic sweeps of direct evaluation and evaluate_v.
use crate::common::*;
use serde_json::json;
use std::sync::Arc;
use xplore::*;

pub struct HUnit<T> {
    pub ends: Vec<f64>,
    pub alpha: Vec<f64>,
    pub pw: Piecewise<T>,
    pub direct: Vec<Option<f64>>,
    pub depth: usize,
    pub kind: &'static str,
}

pub fn make_unit<T: Evaluate>(ends: Vec<f64>, pw: Piecewise<T>, depth: usize, with_nan: bool, kind: &'static str) -> HUnit<T> {
    let alpha = order_alphabet(&ends);
    make_unit_with(ends, pw, depth, with_nan, kind, alpha)
}
pub fn make_unit_with<T: Evaluate>(ends: Vec<f64>, pw: Piecewise<T>, depth: usize, with_nan: bool, kind: &'static str, mut alpha: Vec<f64>) -> HUnit<T> {
    if with_nan {
        alpha.extend(nans());
    }
    let direct = alpha.iter().map(|&x| guard(|| pw.evaluate(x)).ok()).collect();
    HUnit { ends, alpha, pw, direct, depth, kind }
}

/// deviation order: 0 = repeat the previous argument, then forward steps (ascending), then backward steps (descending)
#[inline]
fn pick_index(prev: Option<usize>, c: usize, n: usize) -> usize {
    match prev {
        None => c,
        Some(p) => {
            let fwd = n - 1 - p;
            if c == 0 {
                p
            } else if c <= fwd {
                p + c
            } else {
                p - (c - fwd)
            }
        }
    }
}

// class ids
const K_BACK: usize = 0;
const K_JUMP: usize = 1;
const K_ATEND: usize = 2;
const K_LAST: usize = 3;
const K_BACK_TO_FIRST: usize = 4;
const K_REPEAT: usize = 5;
const K_NAN_THEN_REAL: usize = 6;
const K_INF: usize = 7;

fn classes(c16: bool) -> Vec<(&'static str, bool)> {
    vec![
        ("history_with_backward_move", true),
        ("forward_jump_over_two_or_more_pieces", true),
        ("query_equal_to_an_end", true),
        ("query_served_by_last_piece", true),
        ("backward_move_to_first_piece", true),
        ("repeated_argument", true),
        ("nan_then_non_nan_query", c16),
        ("infinite_query", true),
    ]
}

pub fn hist_body<T: Evaluate + Sync + Send + 'static>(units: Arc<Vec<HUnit<T>>>, c16: bool) -> Body {
    Box::new(move |unit, cx| {
        let u = &units[unit];
        let n = u.alpha.len();
        let d = 1 + cx.choose(u.depth);
        let mut ev = match guard(|| PiecewiseEvaluator::new(&u.pw.segments)) {
            Ok(e) => e,
            Err(p) => return Err(Fail::new(format!("PiecewiseEvaluator::new panicked on a non-empty function: {p}"), json!({"ends": fjs(&u.ends)}))),
        };
        let mut prev: Option<usize> = None;
        let mut hist: Vec<usize> = Vec::with_capacity(d);
        let (mut back, mut atend, mut nan_seen, mut nan_then_real) = (false, false, false, false);
        let mut prev_real: Option<f64> = None;
        for _t in 0..d {
            let c = cx.choose(n);
            let idx = pick_index(prev, c, n);
            prev = Some(idx);
            hist.push(idx);
            let x = u.alpha[idx];
            let got = guard(|| ev.evaluate(x));
            cx.evals(1);
            let fail = |what: String, got: String| {
                let h: Vec<f64> = hist.iter().map(|&i| u.alpha[i]).collect();
                let nan_before = h[..h.len() - 1].iter().any(|v| v.is_nan());
                let hs: Vec<String> = h.iter().map(|x| lit(*x)).collect();
                let body = format!("    let hist = [{}];\n    let mut ev = PiecewiseEvaluator::new(&pw.segments);\n    for &x in &hist {{\n        let got = ev.evaluate(x);\n        if !x.is_nan() {{ assert_eq!(got.to_bits(), pw.evaluate(x).to_bits(), \"query {{x:e}}\"); }}\n    }}", hs.join(", "));
                let f = Fail::new(
                    what,
                    json!({"ends": fjs(&u.ends), "piece_type": u.kind, "history": fjs(&h), "failing_query_index": h.len() - 1,
                           "direct_evaluation": u.direct[idx].map(fj), "evaluator_answer": got, "nan_query_earlier_in_history": nan_before,
                           "rust_repro": repro(&u.ends, &body)}),
                );
                f
            };
            let g = match got {
                Err(p) => return Err(fail(format!("PiecewiseEvaluator::evaluate panicked: {p}"), p.clone())),
                Ok(g) => g,
            };
            if x.is_nan() {
                nan_seen = true;
                continue; // the answer to a NaN query itself is unconstrained
            }
            if nan_seen {
                nan_then_real = true;
            }
            let Some(want) = u.direct[idx] else {
                return Err(fail("direct evaluation (Piecewise::evaluate) panicked on this argument".into(), "n/a".into()));
            };
            if !bits_eq(g, want) {
                return Err(fail(
                    "PiecewiseEvaluator answer differs from direct evaluation of the same argument".into(),
                    format!("{:e}/{:#018x}", g, g.to_bits()),
                ));
            }
            // spec-level classes
            let k = u.ends.len();
            let seg = ref_index(&u.ends, x);
            if let Some(px) = prev_real {
                if x < px {
                    back = true;
                    if seg == 0 && ref_index(&u.ends, px) > 0 {
                        cx.class(K_BACK_TO_FIRST);
                    }
                } else if x == px {
                    cx.class(K_REPEAT);
                } else if seg >= ref_index(&u.ends, px) + 2 {
                    cx.class(K_JUMP);
                }
            }
            if u.ends.iter().any(|&e| e == x) {
                atend = true;
                cx.class(K_ATEND);
            }
            if seg == k - 1 && k > 1 {
                cx.class(K_LAST);
            }
            if x.is_infinite() {
                cx.class(K_INF);
            }
            prev_real = Some(x);
        }
        if back {
            cx.class(K_BACK);
        }
        if nan_then_real {
            cx.class(K_NAN_THEN_REAL);
        }
        if c16 {
            if nan_then_real {
                cx.nontrivial();
            }
        } else if back && atend {
            cx.nontrivial();
        }
        if cx.sampling() {
            let h: Vec<f64> = hist.iter().map(|&i| u.alpha[i]).collect();
            cx.sample(json!({"ends": fjs(&u.ends), "piece_type": u.kind, "history": fjs(&h)}));
        }
        Ok(())
    })
}

fn shape_list(thorough: bool) -> Vec<(Vec<f64>, usize)> {
    // (ends, depth)
    let mut out = vec![];
    if thorough {
        for e in shapes(&[1.0, 2.0, 3.0, 4.0, 5.0], 5) {
            let d = if e.len() <= 3 { 6 } else { 5 };
            out.push((e, d));
        }
        for e in shapes(&[1.0, 2.0, 3.0, 4.0, 5.0, 6.0], 6).into_iter().filter(|e| e.len() == 6) {
            out.push((e, 4));
        }
    } else {
        for e in shapes(&[1.0, 2.0, 3.0, 4.0, 5.0], 5) {
            let d = if e.len() <= 4 { 5 } else { 4 };
            out.push((e, d));
        }
    }
    out
}

fn phases(thorough: bool, c16: bool) -> Vec<Phase> {
    let sl = shape_list(thorough);
    let probe_units: Vec<HUnit<Probe>> = sl.iter().map(|(e, d)| make_unit(e.clone(), probe_pw(e), *d, c16, "Probe")).collect();
    let real_units: Vec<HUnit<Poly1>> =
        sl.iter().filter(|(e, _)| e.len() <= 4).map(|(e, d)| make_unit(e.clone(), poly1_pw(e), (*d).min(3), c16, "Poly1")).collect();
    let nasty: Vec<HUnit<Probe>> = shapes(&nasty_values(), 3).into_iter().map(|e| make_unit(e.clone(), probe_pw(&e), 3, c16, "Probe")).collect();
    let nan_txt = if c16 { " plus 4 NaN bit patterns (+-quiet, two payloads)" } else { "" };
    // long histories over a reduced alphabet (one point per cell and every end): hidden state that only goes wrong after many steps
    let long_list: Vec<(Vec<f64>, usize)> = vec![
        (vec![1.0, 2.0], if thorough { 13 } else { 11 }),
        (vec![1.0, 1.0, 2.0], if thorough { 12 } else { 10 }),
        (vec![1.0, 2.0, 3.0], if thorough { 10 } else { 9 }),
        (vec![1.0, 2.0, 2.0, 3.0], if thorough { 10 } else { 8 }),
        (vec![1.0, 2.0, 3.0, 4.0], if thorough { 9 } else { 7 }),
        (iota(5), if thorough { 8 } else { 7 }),
        (iota(6), if thorough { 7 } else { 6 }),
        (iota(8), if thorough { 6 } else { 5 }),
    ];
    let long_units: Vec<HUnit<Probe>> = long_list
        .iter()
        .map(|(e, d)| {
            let mut a = reduced_alphabet(e);
            if c16 {
                a.truncate(a.len()); // NaNs are appended by make_unit_with (all four patterns would blow up the depth: keep one)
            }
            let mut u = make_unit_with(e.clone(), probe_pw(e), *d, false, "Probe", a);
            if c16 {
                u.alpha.push(f64::NAN);
                u.direct.push(guard(|| u.pw.evaluate(f64::NAN)).ok());
                u.depth = u.depth.saturating_sub(1).max(3);
            }
            u
        })
        .collect();
    // big functions around size thresholds: every history of length <= 2 (3 for small sizes) over the full alphabet
    let every_len: Vec<Vec<f64>> = (18..=(if thorough { 200 } else { 130 })).map(iota).collect();
    let big_units: Vec<HUnit<Probe>> = big_shapes(thorough, if thorough { 257 } else { 129 })
        .into_iter()
        .chain(every_len.into_iter())
        .map(|e| {
            let d = if e.len() <= 17 { 3 } else { 2 };
            make_unit(e.clone(), probe_pw(&e), d, c16, "Probe")
        })
        .collect();
    let mut v = vec![];
    let n = probe_units.len();
    v.push(Phase {
        name: "histories-probe",
        units: n,
        body: hist_body(Arc::new(probe_units), c16),
        classes: classes(c16),
        split: 0,
        bounds: json!({"shapes": if thorough {"all non-decreasing end lists of length 1..5 over {1..5} (history depth 6 for <=3 pieces, 5 for 4-5 pieces) and of length 6 over {1..6} (depth 4)"} else {"all non-decreasing end lists of length 1..5 over {1..5} (history depth 5 for <=4 pieces, 4 for 5 pieces)"},
                       "queries": format!("every history x1..xd, d<=depth, over the order-complete alphabet A(ends){nan_txt}; each query's answer compared with Piecewise::evaluate on bits"),
                       "deviation_order": "choice 0 = repeat previous argument, then forward steps, then backward steps; shorter histories first"}),
    });
    let n = real_units.len();
    v.push(Phase {
        name: "histories-poly1",
        units: n,
        body: hist_body(Arc::new(real_units), c16),
        classes: classes(c16).into_iter().map(|(n, _)| (n, false)).collect(),
        split: 0,
        bounds: json!({"shapes": "end lists of length 1..4 over {1..5}", "depth": 3, "piece_type": "real Poly1 pieces with pairwise different coefficients"}),
    });
    let n = long_units.len();
    v.push(Phase {
        name: "long-histories-reduced-alphabet",
        units: n,
        split: 3,
        body: hist_body(Arc::new(long_units), c16),
        classes: classes(c16).into_iter().map(|(n, _)| (n, false)).collect(),
        bounds: json!({"shapes": "[1,2], [1,1,2], [1,2,3], [1,2,2,3], [1,2,3,4], 1..5, 1..6, 1..8",
                       "alphabet": "reduced: one point below, every end, one interior point per cell, one point above (C16: plus one NaN)",
                       "depth": if thorough {"13, 12, 10, 10, 9, 8, 7, 6 (C16: one less)"} else {"11, 10, 9, 8, 7, 7, 6, 5 (C16: one less)"}}),
    });
    let n = big_units.len();
    v.push(Phase {
        name: "big-functions",
        units: n,
        split: 1,
        body: hist_body(Arc::new(big_units), c16),
        classes: classes(c16).into_iter().map(|(n, _)| (n, false)).collect(),
        bounds: json!({"shapes": format!("for n in {:?}: 1..n, the centred list -n/2..n/2 (with +0.0 and with -0.0), three variants with periodic duplicate runs and one with a long run; for n = 33, 34, 65, 66 (100, 129 thorough) every list with a single duplicated end at each position", threshold_sizes(thorough).into_iter().filter(|&n| n <= if thorough { 257 } else { 129 }).collect::<Vec<_>>()),
                       "histories": "every history of length <= 2 (<= 3 for n <= 17) over the full order-complete alphabet A(ends)"}),
    });
    {
        // three-step histories on big functions over the reduced alphabet (C16: a NaN query needs a history around it: [x1, NaN, x2])
        let units: Vec<HUnit<Probe>> = [33usize, 64, 65, 66, 100, 129]
            .into_iter()
            .map(|n| {
                let e = iota(n);
                let mut u = make_unit_with(e.clone(), probe_pw(&e), 3, false, "Probe", reduced_alphabet(&e));
                if c16 {
                    u.alpha.push(f64::NAN);
                    u.direct.push(guard(|| u.pw.evaluate(f64::NAN)).ok());
                }
                u
            })
            .collect();
        let n = units.len();
        v.push(Phase {
            name: "big-functions-three-step-histories",
            units: n,
            split: 2,
            body: hist_body(Arc::new(units), c16),
            classes: classes(c16).into_iter().map(|(n, _)| (n, false)).collect(),
            bounds: json!({"shapes": "1..n for n = 33, 64, 65, 66, 100, 129", "histories": "every history of length <= 3 over the reduced alphabet (every end, one point per cell, one below, one above; C16: plus NaN)"}),
        });
    }
    v.push(debruijn_phase(thorough, c16));
    v.push(macro_move_phase(thorough, c16));
    v.push(sized_phase(thorough, c16));
    v.push(flaky_phase(thorough));
    let n = nasty.len();
    v.push(Phase {
        name: "histories-nasty-ends",
        units: n,
        body: hist_body(Arc::new(nasty), c16),
        classes: classes(c16).into_iter().map(|(n, _)| (n, false)).collect(),
        split: 0,
        bounds: json!({"shapes": "end lists of length 1..3 over {-MAX,-1,-2^-1022,-0.0,+0.0,5e-324,1,succ(1),1e300,MAX,+inf}", "depth": 3}),
    });
    v
}

/// A piece type whose own `evaluate` panics at one argument: the panic passes through the evaluator to the caller, who catches
/// it and goes on using the same evaluator. Every later answer must still be the direct evaluation's (exception safety of
/// the cursor / remembered-argument pair).
#[derive(Clone, Copy, Debug, PartialEq)]
struct Flaky {
    id: u32,
    poison: u64,
}
impl Evaluate for Flaky {
    fn evaluate(&self, x: f64) -> f64 {
        if x.to_bits() == self.poison {
            panic!("piece refuses this argument");
        }
        Probe(self.id).evaluate(x)
    }
}
fn flaky_phase(thorough: bool) -> Phase {
    let mut sh = shapes(&[1.0, 2.0, 3.0, 4.0], 4);
    sh.push(iota(6));
    sh.push(vec![1.0, 2.0, 2.0, 3.0, f64::INFINITY]);
    let n = sh.len();
    let sh = Arc::new(sh);
    Phase {
        name: "histories-with-a-panicking-piece",
        units: n,
        split: 2,
        body: Box::new(move |unit, cx| {
            let ends = &sh[unit];
            let alpha = order_alphabet(ends);
            let poison = alpha[cx.choose(alpha.len())];
            let pw: Piecewise<Flaky> = Piecewise { segments: ends.iter().enumerate().map(|(i, &e)| Segment { end: e, poly: Flaky { id: i as u32, poison: poison.to_bits() } }).collect() };
            let depth = if ends.len() <= 3 { if thorough { 4 } else { 3 } } else if thorough { 3 } else { 2 };
            let d = 1 + cx.choose(depth);
            let xs: Vec<f64> = (0..d).map(|_| alpha[cx.choose(alpha.len())]).collect();
            if xs.iter().any(|x| x.to_bits() == poison.to_bits()) && xs.last().map_or(false, |x| x.to_bits() != poison.to_bits()) {
                cx.nontrivial();
            }
            cx.evals(d as u64);
            if cx.sampling() {
                cx.sample(json!({"ends": fjs(ends), "argument_at_which_pieces_panic": fj(poison), "history": fjs(&xs)}));
            }
            let mut ev = PiecewiseEvaluator::new(&pw.segments);
            for (t, &x) in xs.iter().enumerate() {
                let got = guard(|| ev.evaluate(x));
                let want = guard(|| pw.evaluate(x));
                let ok = match (&got, &want) {
                    (Ok(a), Ok(b)) => a.to_bits() == b.to_bits(),
                    (Err(_), Err(_)) => true,
                    _ => false,
                };
                if !ok {
                    return Err(Fail::new(
                        "after a panic raised by a piece's own evaluate (caught by the caller), PiecewiseEvaluator no longer agrees with direct evaluation",
                        json!({"ends": fjs(ends), "argument_at_which_pieces_panic": fj(poison), "history": fjs(&xs[..=t]), "got": got.as_ref().map(|v| fj(*v)).map_err(|e| e.clone()), "direct_evaluation": want.as_ref().map(|v| fj(*v)).map_err(|e| e.clone())}),
                    ));
                }
            }
            Ok(())
        }),
        classes: vec![],
        bounds: json!({"shapes": "end lists of length 1..4 over {1..4}, 1..6, [1,2,2,3,+inf]", "piece type": "a probe piece whose evaluate panics at one argument of A(ends) (every choice of that argument)", "histories": "every history of length 1..3 (4 thorough; 2 resp. 3 for more than 3 pieces) over A(ends) on one evaluator, panics caught by the caller"}),
    }
}

/// every number of pieces for piece types of every size, three structured histories each (thresholds in segments and in
/// bytes, crossed for each type): forward sweep through every cell and end, backward sweep, far / near alternation and jumps
fn sized_phase(thorough: bool, c16: bool) -> Phase {
    fn sized<T: Nums + Evaluate + Copy>(n: usize, pattern: usize, nan: bool, name: &str, cx: &mut Cx) -> Verdict {
        let ends: Vec<f64> = (0..n).map(|i| 0.5 + i as f64 * 0.25).collect();
        let pw: Piecewise<T> = Piecewise {
            segments: ends.iter().enumerate().map(|(i, &e)| Segment { end: e, poly: T::from_nums(&(0..T::N).map(|l| 1.0 + (i % 251) as f64 + 0.125 * l as f64).collect::<Vec<_>>()) }).collect(),
        };
        let cell = |k: usize| ends[k.min(n - 1)] - 0.125;
        let mut xs: Vec<f64> = vec![];
        match pattern {
            0 => {
                for k in 0..n {
                    xs.push(cell(k));
                    xs.push(ends[k]);
                }
                xs.push(ends[n - 1] + 3.0);
            }
            1 => {
                xs.push(ends[n - 1] + 1.0);
                for k in (0..n).rev().step_by(3) {
                    xs.push(cell(k));
                }
                xs.push(f64::NEG_INFINITY);
            }
            _ => {
                for j in 0..8usize {
                    xs.push(cell(n - 1));
                    xs.push(cell(j));
                }
                for (k, d) in [(0usize, 33usize), (33, 65), (98, 1), (99, 200)] {
                    xs.push(cell(k + d));
                    xs.push(cell(k));
                    xs.push(ends[(k + d).min(n - 1)]);
                }
                xs.push(cell(4));
                xs.push(ends[3.min(n - 1)]);
            }
        }
        if nan {
            // C16: a NaN query after every seventh query
            let mut ys = vec![];
            for (i, x) in xs.iter().enumerate() {
                ys.push(*x);
                if i % 7 == 3 {
                    ys.push(f64::NAN);
                }
            }
            xs = ys;
        }
        cx.nontrivial();
        cx.evals(xs.len() as u64);
        if cx.sampling() {
            cx.sample(json!({"piece_type": name, "pieces": n, "pattern": pattern, "queries": xs.len()}));
        }
        // the segments also in a slice placed at an address 8 (mod 16) (a Vec's buffer never is): same answers
        let placed = if std::mem::size_of::<Segment<T>>() % 8 == 0 && n <= 700 { Some(Placed::new(&pw.segments)) } else { None };
        let r = guard(|| {
            let mut ev = PiecewiseEvaluator::new(&pw.segments);
            let mut ev2 = placed.as_ref().map(|p| PiecewiseEvaluator::new(p.slice()));
            // (expected: the reference piece - first end > x, else the last - found by bisection in the harness; direct
            // evaluation itself scans linearly, which would make the long sweeps quadratic; C02 decides direct evaluation)
            let direct = |x: f64| pw.segments[ends.partition_point(|&e| e <= x).min(n - 1)].poly.evaluate(x);
            for (t, &x) in xs.iter().enumerate() {
                let y = ev.evaluate(x);
                if !x.is_nan() && y.to_bits() != direct(x).to_bits() {
                    return Some((t, x, y, direct(x)));
                }
                if let Some(e2) = ev2.as_mut() {
                    let y2 = e2.evaluate(x);
                    if !x.is_nan() && y2.to_bits() != y.to_bits() {
                        return Some((t, x, y2, y));
                    }
                }
            }
            None
        });
        match r {
            Err(p) => Err(Fail::new(format!("PiecewiseEvaluator panicked: {p}"), json!({"piece_type": name, "pieces": n, "pattern": pattern}))),
            Ok(Some((t, x, y, d))) => Err(Fail::new(
                "PiecewiseEvaluator answer differs from direct evaluation of the same argument",
                json!({"piece_type": name, "pieces": n, "ends": "0.5 + i/4", "pattern": pattern, "query_number": t, "x": fj(x), "got": fj(y), "direct_evaluation": fj(d), "history": fjs(&xs[..=t.min(xs.len() - 1)].iter().rev().take(12).rev().cloned().collect::<Vec<_>>())}),
            )),
            Ok(None) => Ok(()),
        }
    }
    Phase {
        name: "every-number-of-pieces",
        units: 6,
        split: 1,
        body: Box::new(move |unit, cx| {
            let top = if thorough { 1500 } else { 600 };
            let k = cx.choose(top - 1 + 5);
            let n = if k < top - 1 { 2 + k } else { [1025usize, 4097, 16385, 65537, 70001][k - (top - 1)] };
            let pattern = cx.choose(3);
            match unit {
                0 => sized::<Poly0>(n, pattern, c16, "Poly0", cx),
                1 => sized::<Poly2>(n, pattern, c16, "Poly2", cx),
                2 => sized::<Poly3>(n, pattern, c16, "Poly3", cx),
                3 => sized::<Poly5>(n, pattern, c16, "Poly5", cx),
                4 => sized::<Poly8>(n, pattern, c16, "Poly8", cx),
                _ => sized::<IntOfLogPoly4>(n, pattern, c16, "IntOfLogPoly4", cx),
            }
        }),
        classes: classes(c16).into_iter().map(|(n, _)| (n, false)).collect(),
        bounds: json!({"piece_types": "Poly0, Poly2, Poly3, Poly5, Poly8, IntOfLogPoly4 (Segment sizes 16..80 bytes)", "pieces": if thorough {"every n from 2 to 1500, and 1025, 4097, 16385, 65537, 70001"} else {"every n from 2 to 600, and 1025, 4097, 16385, 65537, 70001"},
            "histories": "forward sweep through every cell and every end exactly; backward sweep through every third cell; last cell / first eight cells alternately, then jumps of 33, 65, 1 and 200 cells forth and back with the target end hit exactly (C16: a NaN query after every seventh query); up to 700 pieces the same history also on an evaluator over the segments copied to an address 8 (mod 16)"}),
    }
}

/// one long history per shape: a de Bruijn sequence of order 3 (4 thorough) over the full alphabet, so that every window of
/// 3 (4) consecutive queries occurs inside one long run of a single evaluator (state accumulated over 10^4..10^6 queries)
fn debruijn_phase(thorough: bool, c16: bool) -> Phase {
    let mut sh = shapes(&[1.0, 2.0, 3.0, 4.0], 4);
    sh.push(iota(5));
    sh.push(iota(9));
    sh.push(iota(33));
    let order = if thorough { 4 } else { 3 };
    let units: Vec<HUnit<Probe>> = sh.into_iter().map(|e| make_unit(e.clone(), probe_pw(&e), 1, c16, "Probe")).collect();
    let n = units.len();
    let units = Arc::new(units);
    Phase {
        name: "one-long-de-bruijn-history-per-shape",
        units: n,
        split: 0,
        body: Box::new(move |unit, cx| {
            let u = &units[unit];
            let k = u.alpha.len();
            let ord = if k > 60 { 2 } else if k > 30 { order.min(3) } else { order };
            let seq = debruijn(k, ord);
            let mut ev = PiecewiseEvaluator::new(&u.pw.segments);
            cx.nontrivial();
            for (t, &idx) in seq.iter().enumerate() {
                let x = u.alpha[idx];
                let got = guard(|| ev.evaluate(x));
                cx.evals(1);
                let bad = match (&got, u.direct[idx]) {
                    (Err(_), _) => true,
                    (Ok(_), _) if x.is_nan() => false,
                    (Ok(g), Some(w)) => !bits_eq(*g, w),
                    (Ok(_), None) => true,
                };
                if bad {
                    let from = t.saturating_sub(8);
                    let tail: Vec<f64> = seq[from..=t].iter().map(|&i| u.alpha[i]).collect();
                    return Err(Fail::new(
                        "PiecewiseEvaluator answer differs from direct evaluation inside a long history",
                        json!({"ends": fjs(&u.ends), "position_in_history": t, "history_length": seq.len(), "last_queries": fjs(&tail),
                               "direct_evaluation": u.direct[idx].map(fj), "evaluator_answer": format!("{:?}", got)}),
                    ));
                }
            }
            if cx.sampling() {
                cx.sample(json!({"ends": fjs(&u.ends), "history_length": seq.len(), "de_bruijn_order": ord}));
            }
            Ok(())
        }),
        classes: vec![],
        bounds: json!({"shapes": "end lists of length 1..4 over {1..4}, 1..5, 1..9, 1..33", "history": format!("de Bruijn sequence of order {order} (3 for |A| > 30, 2 for |A| > 60) over A(ends): every window of that many consecutive queries occurs in one run of a single evaluator")}),
    }
}

/// long structured histories: a history is a short sequence of *moves* — jump to a cell, or sweep cell by cell to a cell
/// (one query per segment: the cell midpoint) — so that 4-5 moves describe histories of dozens of queries with long
/// monotone runs, turns and exact repeats of earlier arguments
fn macro_move_phase(thorough: bool, c16: bool) -> Phase {
    // (number of segments, positions used as move targets)
    let mk = |n: usize| -> (Vec<f64>, Vec<usize>) {
        let e = iota(n);
        let mut p: Vec<usize> = if n <= 14 { (0..=n).collect() } else { vec![0, 1, 2, n / 2 - 1, n / 2, n / 2 + 1, n - 3, n - 2, n - 1, n] };
        p.dedup();
        (e, p)
    };
    // one move deeper on a reduced target set {0,1,n/2,n-4,n-3,n-2,n-1,n}
    let mk8 = |n: usize| -> (Vec<f64>, Vec<usize>, usize) { (iota(n), vec![0, 1, n / 2, n - 4, n - 3, n - 2, n - 1, n], 5) };
    // (thorough: more sizes at four moves, and five moves on the two small functions - five moves on every size takes hours)
    let base_depth = if thorough { 5 } else { 4 };
    let mut cfgs: Vec<(Vec<f64>, Vec<usize>, usize)> = (if thorough { vec![mk(5), mk(13), mk(20), mk(36), mk(70), mk(130)] } else { vec![mk(5), mk(13), mk(36), mk(70)] }).into_iter().map(|(e, p)| { let d = if thorough && e.len() <= 13 { 5 } else { 4 }; (e, p, d) }).collect();
    cfgs.push(mk8(13));
    cfgs.push(mk8(20));
    // very long monotone runs: two moves on 300 (1030 thorough) pieces
    cfgs.push((iota(300), vec![0, 1, 150, 299, 300], 2));
    if thorough {
        cfgs.push((iota(1030), vec![0, 1, 515, 1029, 1030], 2));
    }
    if thorough {
        cfgs.push(mk8(36));
    }
    let units: Vec<(HUnit<Probe>, Vec<usize>, usize)> = cfgs.into_iter().map(|(e, p, d)| (make_unit(e.clone(), probe_pw(&e), 1, false, "Probe"), p, d)).collect();
    let n = units.len();
    let units = Arc::new(units);
    let depth = base_depth;
    Phase {
        name: "macro-move-histories",
        units: n,
        split: 2,
        body: Box::new(move |unit, cx| {
            let (u, pos, udepth) = &units[unit];
            let nseg = u.ends.len();
            // cell c in 0..=nseg: c = 0 below the first end, c = nseg at/after the last end; query = a point of the cell
            let point = |c: usize| -> f64 { if c == 0 { u.ends[0] - 0.5 } else { u.ends[c - 1] + 0.5 } };
            let d = 1 + cx.choose(*udepth);
            let mut hist: Vec<f64> = Vec::new();
            let mut cur: usize = 0;
            let mut started = false;
            for _ in 0..d {
                // move kinds: 0 jump, 1 sweep (cell by cell), 2 jump to the end value itself (exact breakpoint),
                // 3 / 4 sweep with stride 2 / 3 (regular sampling), C16: 5 = NaN query
                let kind = cx.choose(if c16 { 6 } else { 5 });
                if kind == 5 {
                    hist.push(f64::NAN);
                    continue;
                }
                let target = pos[cx.choose(pos.len())];
                match kind {
                    1 if started => {
                        while cur != target {
                            cur = if target > cur { cur + 1 } else { cur - 1 };
                            hist.push(point(cur));
                        }
                    }
                    2 => {
                        cur = target;
                        hist.push(if target == 0 { f64::NEG_INFINITY } else { u.ends[target - 1] });
                    }
                    3 | 4 if started => {
                        let s = kind - 1; // stride 2 or 3
                        while cur != target {
                            let d = if target > cur { (target - cur).min(s) as isize } else { -((cur - target).min(s) as isize) };
                            cur = (cur as isize + d) as usize;
                            hist.push(point(cur));
                        }
                    }
                    _ => {
                        cur = target;
                        hist.push(point(cur));
                    }
                }
                started = true;
            }
            cx.nontrivial();
            let mut ev = PiecewiseEvaluator::new(&u.pw.segments);
            for (t, &x) in hist.iter().enumerate() {
                let got = guard(|| ev.evaluate(x));
                cx.evals(1);
                let want = u.pw.segments[ref_index(&u.ends, x)].evaluate(x);
                let bad = match &got {
                    Err(_) => true,
                    Ok(_) if x.is_nan() => false,
                    Ok(g) => !bits_eq(*g, want),
                };
                if bad {
                    let hs: Vec<String> = hist[..=t].iter().map(|x| lit(*x)).collect();
                    let body = format!("    let hist = [{}];\n    let mut ev = PiecewiseEvaluator::new(&pw.segments);\n    for &x in &hist {{\n        let got = ev.evaluate(x);\n        if !x.is_nan() {{ assert_eq!(got.to_bits(), pw.evaluate(x).to_bits(), \"query {{x:e}}\"); }}\n    }}", hs.join(", "));
                    return Err(Fail::new(
                        match got { Err(p) => format!("PiecewiseEvaluator::evaluate panicked: {p}"), Ok(_) => "PiecewiseEvaluator answer differs from direct evaluation of the same argument".into() },
                        json!({"segments": nseg, "ends": "1..n", "history": fjs(&hist[..=t]), "failing_query_index": t, "rust_repro": repro(&u.ends, &body)}),
                    ));
                }
            }
            if cx.sampling() {
                cx.sample(json!({"segments": nseg, "history_length": hist.len(), "history": fjs(&hist)}));
            }
            Ok(())
        }),
        classes: vec![],
        bounds: json!({"functions": if thorough {"1..n for n = 5, 13, 20, 36, 70, 130"} else {"1..n for n = 5, 13, 36, 70"},
            "moves": "jump to a cell / sweep cell by cell to a cell (one query per segment) / sweep with stride 2 or 3 / query exactly the breakpoint that starts a cell (C16: / a NaN query); targets: every cell for n <= 14, else {0,1,2,n/2-1,n/2,n/2+1,n-3,n-2,n-1,n}",
            "histories": format!("every sequence of <= {depth} moves (histories of up to ~{} queries); on 13 and 20 (36 thorough) pieces also every sequence of <= {} moves over the targets {{0,1,n/2,n-4,n-3,n-2,n-1,n}}", depth * 130, depth + 1)}),
    }
}

pub fn check_c03(thorough: bool, _seed: u64) -> Check {
    Check {
        id: "C03",
        rule: "engine A: choice tree shape (unit) x history length x one query per step; each leaf is one query history fed to a fresh real PiecewiseEvaluator, every answer compared on bits with Piecewise::evaluate; non-trivial = history with >=1 backward move and >=1 query equal to an end. Engine B (pwhooked, reachable-state fixpoint via the verif-hooks accessor) is reported under engine_B.".into(),
        assumptions: vec!["Piecewise::evaluate is the oracle (decided separately by C02)".into(), "Probe pieces return a value identifying piece and argument".into()],
        phases: phases(thorough, false),
        extra: Default::default(),
        controls: vec![("pick_index is a permutation", Box::new(|| {
            for n in 1..8 {
                for p in 0..n {
                    let mut seen = vec![false; n];
                    for c in 0..n {
                        seen[pick_index(Some(p), c, n)] = true;
                    }
                    if seen.iter().any(|s| !s) {
                        return Err(format!("n={n} p={p}"));
                    }
                }
            }
            Ok(())
        }))],
    }
}

// ---------------------------------------------------------------- C16 extra phases
fn nopanic_phase(thorough: bool) -> Phase {
    let mut sh = shapes(&[1.0, 2.0, 3.0, 4.0, 5.0], if thorough { 5 } else { 4 });
    sh.extend(shapes(&nasty_values(), if thorough { 4 } else { 3 }));
    sh.extend([17usize, 33, 63, 64, 65, 100, 129].into_iter().map(iota));
    let units: Vec<(Vec<f64>, Vec<f64>)> = sh
        .into_iter()
        .map(|e| {
            let mut a = order_alphabet(&e);
            a.extend(nans());
            (e, a)
        })
        .collect();
    let n = units.len();
    let units = Arc::new(units);
    Phase {
        name: "no-panic-direct-and-evaluate_v",
        units: n,
        body: Box::new(move |unit, cx| {
            let (ends, alpha) = &units[unit];
            let x1 = *cx.pick(alpha);
            let x2 = *cx.pick(alpha);
            let kind = cx.choose(2);
            if x1.is_nan() || x2.is_nan() {
                cx.class(0);
                cx.nontrivial();
            }
            if x1.is_infinite() || x2.is_infinite() {
                cx.class(1);
            }
            let r = if kind == 0 {
                let pw = probe_pw(ends);
                guard(|| {
                    let a = pw.evaluate(x1);
                    let b: Vec<f64> = pw.evaluate_v(vec![x1, x2]).collect();
                    // the other ways of draining the iterator (internal iteration) must not panic either
                    let c = pw.evaluate_v(vec![x1, x2]).count();
                    let mut d = 0usize;
                    pw.evaluate_v(vec![x1, x2]).for_each(|_| d += 1);
                    let e = pw.evaluate_v(vec![x1, x2]).fold(0usize, |n, _| n + 1);
                    let f = pw.evaluate_v(vec![x1, x2]).last().is_some() as usize + pw.evaluate_v(vec![x2, x1]).map(|y| y.to_bits()).max().is_some() as usize;
                    (a, if c == 2 && d == 2 && e == 2 && f == 2 { b.len() } else { 99 })
                })
            } else {
                let pw = poly3_pw(ends);
                guard(|| {
                    let a = pw.evaluate(x1);
                    let b: Vec<f64> = pw.evaluate_v(vec![x1, x2]).collect();
                    // the other ways of draining the iterator (internal iteration) must not panic either
                    let c = pw.evaluate_v(vec![x1, x2]).count();
                    let mut d = 0usize;
                    pw.evaluate_v(vec![x1, x2]).for_each(|_| d += 1);
                    let e = pw.evaluate_v(vec![x1, x2]).fold(0usize, |n, _| n + 1);
                    let f = pw.evaluate_v(vec![x1, x2]).last().is_some() as usize + pw.evaluate_v(vec![x2, x1]).map(|y| y.to_bits()).max().is_some() as usize;
                    (a, if c == 2 && d == 2 && e == 2 && f == 2 { b.len() } else { 99 })
                })
            };
            cx.evals(3);
            if cx.sampling() {
                cx.sample(json!({"ends": fjs(ends), "x1": fj(x1), "x2": fj(x2)}));
            }
            match r {
                Err(p) => Err(Fail::new(format!("evaluation panicked on a non-empty function: {p}"), json!({"ends": fjs(ends), "x1": fj(x1), "x2": fj(x2)}))),
                Ok((_, 2)) => Ok(()),
                Ok((_, n)) => Err(Fail::new("evaluate_v yielded a wrong number of values", json!({"ends": fjs(ends), "x1": fj(x1), "x2": fj(x2), "n": n}))),
            }
        }),
        classes: vec![("nan_argument", true), ("infinite_argument", true)],
        split: 0,
        bounds: json!({"shapes": "end lists over {1..5} and over the nasty value set; 1..n for n = 17, 33, 63, 64, 65, 100, 129", "arguments": "every pair (x1,x2) over A(ends) + 4 NaNs, fed to Piecewise::evaluate and evaluate_v"}),
    }
}

pub fn check_c16(thorough: bool, seed: u64) -> Check {
    let mut ph = phases(thorough, true);
    ph.push(nopanic_phase(thorough));
    ph.extend(crate::census::phases(thorough, seed));
    Check {
        id: "C16",
        rule: "engine A of C03 with NaN queries added to every alphabet (a NaN query is the deviation): no query may panic and every non-NaN answer must equal Piecewise::evaluate on bits; plus no-panic sweeps of direct evaluation / evaluate_v over all argument pairs and a panic census of the public operations on well-formed finite input; non-trivial = history in which a NaN query is followed by a non-NaN query. Engine B (pwhooked) is reported under engine_B.".into(),
        assumptions: vec!["answers to NaN queries themselves are unconstrained by the property".into()],
        phases: ph,
        extra: Default::default(),
        controls: vec![],
    }
}
