//! C12 — evaluate_v: lazily, in order, each argument evaluated with the segment direct
//! evaluation selects for the running maximum of the arguments seen so far.
use crate::common::*;
use serde_json::json;
use std::cell::Cell;
use std::rc::Rc;
use std::sync::Arc;
use xplore::*;

struct Unit {
    ends: Vec<f64>,
    alpha: Vec<f64>,
    depth: usize,
}

fn run<T: Evaluate>(pw: &Piecewise<T>, u: &Unit, idxs: &[usize], kind: &str, cx: &mut Cx) -> Verdict {
    let xs: Vec<f64> = idxs.iter().map(|&i| u.alpha[i]).collect();
    let pulled = Rc::new(Cell::new(0usize));
    let p2 = pulled.clone();
    let input = xs.clone().into_iter().map(move |x| {
        p2.set(p2.get() + 1);
        x
    });
    let detail = |extra: serde_json::Value| {
        let a: Vec<String> = xs.iter().map(|x| lit(*x)).collect();
        let body = format!("    let xs = vec![{}];\n    // expected: each argument evaluated with the piece selected for the running maximum of the arguments so far\n    let mut m = f64::NEG_INFINITY;\n    let want: Vec<f64> = xs.iter().map(|&x| {{ if x > m {{ m = x; }} ends.iter().position(|&e| e > m).unwrap_or(ends.len() - 1) as f64 }}).collect();\n    let got: Vec<f64> = pw.evaluate_v(xs.clone()).collect();\n    assert_eq!(got, want);", a.join(", "));
        json!({"ends": fjs(&u.ends), "piece_type": kind, "arguments": fjs(&xs), "observation": extra, "rust_repro": repro(&u.ends, &body)})
    };
    let mut it = match guard(|| pw.evaluate_v(input)) {
        Ok(it) => it,
        Err(p) => return Err(Fail::new(format!("evaluate_v panicked: {p}"), detail(json!(p)))),
    };
    if pulled.get() != 0 {
        return Err(Fail::new("evaluate_v consumed input before the first output was requested (not lazy)", detail(json!({"pulled": pulled.get()}))));
    }
    let mut m = f64::NEG_INFINITY;
    let mut nondecreasing = true;
    for (t, &x) in xs.iter().enumerate() {
        let got = match guard(|| it.next()) {
            Ok(g) => g,
            Err(p) => return Err(Fail::new(format!("evaluate_v iterator panicked: {p}"), detail(json!({"at": t})))),
        };
        cx.evals(1);
        if pulled.get() != t + 1 {
            return Err(Fail::new("evaluate_v is not lazy / in order: wrong number of inputs consumed", detail(json!({"after_outputs": t + 1, "inputs_pulled": pulled.get()}))));
        }
        if x < m {
            nondecreasing = false;
        }
        if x > m {
            m = x;
        }
        let i = ref_index(&u.ends, m);
        let want = pw.segments[i].poly.evaluate(x);
        let Some(g) = got else {
            return Err(Fail::new("evaluate_v ended early", detail(json!({"at": t}))));
        };
        if !bits_eq(g, want) {
            return Err(Fail::new(
                "evaluate_v output differs from the piece selected for the running maximum of the arguments",
                detail(json!({"at": t, "x": fj(x), "running_max": fj(m), "reference_segment": i, "expected": fj(want), "got": fj(g)})),
            ));
        }
        if nondecreasing {
            let direct = pw.evaluate(x);
            if !bits_eq(g, direct) {
                return Err(Fail::new(
                    "evaluate_v on a non-decreasing sequence differs from pointwise Piecewise::evaluate",
                    detail(json!({"at": t, "x": fj(x), "direct": fj(direct), "got": fj(g)})),
                ));
            }
        }
    }
    match guard(|| it.next()) {
        Ok(None) => {}
        Ok(Some(_)) => return Err(Fail::new("evaluate_v yields more outputs than inputs", detail(json!({})))),
        Err(p) => return Err(Fail::new(format!("evaluate_v iterator panicked at end: {p}"), detail(json!({})))),
    }
    // however the iterator is consumed, position k must hold the k-th output of the plain left-to-right run
    if xs.len() >= 2 {
        let r = guard(|| {
            let all: Vec<f64> = pw.evaluate_v(xs.clone()).collect();
            let mut got: Vec<(&'static str, usize, Option<f64>)> = vec![];
            got.push(("last()", xs.len() - 1, pw.evaluate_v(xs.clone()).last()));
            got.push(("nth(1)", 1, pw.evaluate_v(xs.clone()).nth(1)));
            got.push(("skip(1).next()", 1, pw.evaluate_v(xs.clone()).skip(1).next()));
            if xs.len() >= 3 {
                got.push(("nth(2)", 2, pw.evaluate_v(xs.clone()).nth(2)));
                got.push(("skip(2).next()", 2, pw.evaluate_v(xs.clone()).skip(2).next()));
                got.push(("step_by(2).nth(1)", 2, pw.evaluate_v(xs.clone()).step_by(2).nth(1)));
            }
            let mut it2 = pw.evaluate_v(xs.clone());
            let _ = it2.next();
            got.push(("next() then count()", xs.len() - 1, Some(it2.count() as f64)));
            // internal iteration (fold / for_each / collect after a partial pull) must visit the same outputs in the same order
            let folded = pw.evaluate_v(xs.clone()).fold(Vec::new(), |mut v, y| { v.push(y); v });
            let mut each = vec![];
            pw.evaluate_v(xs.clone()).for_each(|y| each.push(y));
            let mut it3 = pw.evaluate_v(xs.clone());
            let first = it3.next();
            let rest: Vec<f64> = it3.collect();
            for (k, want) in all.iter().enumerate() {
                got.push(("fold", k, folded.get(k).cloned()));
                got.push(("for_each", k, each.get(k).cloned()));
                got.push(("one next(), then collect()", k, if k == 0 { first } else { rest.get(k - 1).cloned() }));
                let _ = want;
            }
            if folded.len() != all.len() || each.len() != all.len() || rest.len() + 1 != all.len() {
                got.push(("fold / for_each / collect length", all.len(), None));
            }
            // one or two outputs pulled with next(), the rest consumed by internal iteration (fold / for_each / last / count)
            // (sequences of two and three arguments: enough for the cursor to have left the first piece; longer ones only cost time)
            for j in 1..=(if xs.len() <= 3 { 2usize.min(xs.len()) } else { 0 }) {
                let mut it = pw.evaluate_v(xs.clone());
                for _ in 0..j {
                    let _ = it.next();
                }
                let rest = it.fold(Vec::new(), |mut v, y| { v.push(y); v });
                let mut it = pw.evaluate_v(xs.clone());
                for _ in 0..j {
                    let _ = it.next();
                }
                let mut each = vec![];
                it.for_each(|y| each.push(y));
                let mut it = pw.evaluate_v(xs.clone());
                for _ in 0..j {
                    let _ = it.next();
                }
                let last = it.last();
                for k in j..all.len() {
                    got.push(("some next(), then fold", k, rest.get(k - j).cloned()));
                    got.push(("some next(), then for_each", k, each.get(k - j).cloned()));
                }
                if all.len() > j {
                    got.push(("some next(), then last()", all.len() - 1, last));
                }
                if rest.len() + j != all.len() || each.len() + j != all.len() {
                    got.push(("some next(), then fold / for_each: length", all.len(), None));
                }
            }
            // the size hint must bracket the number of outputs actually produced
            let (lo, hi) = pw.evaluate_v(xs.clone()).size_hint();
            if lo > all.len() || hi.map_or(false, |h| h < all.len()) {
                got.push(("size_hint() does not bracket the number of outputs", all.len(), None));
            }
            (all, got)
        });
        let (all, got) = match r {
            Ok(t) => t,
            Err(p) => return Err(Fail::new(format!("evaluate_v panicked under a positional adapter: {p}"), detail(json!({})))),
        };
        for (name, k, v) in got {
            let want = if name.starts_with("next() then") { Some(k as f64) } else { all.get(k).cloned() };
            let same = match (v, want) { (Some(a), Some(b)) => bits_eq(a, b), (None, None) => true, _ => false };
            if !same {
                return Err(Fail::new(format!("evaluate_v(..).{name} differs from position {k} of the plain run (skipped arguments must still move the cursor)"), detail(json!({"adapter": name, "position": k, "got": v.map(fj), "expected": want.map(fj)}))));
            }
        }
    }
    Ok(())
}

pub fn check(thorough: bool, _seed: u64) -> Check {
    let mut us = vec![];
    for e in shapes(&[1.0, 2.0, 3.0, 4.0, 5.0], 5) {
        let depth = if thorough { if e.len() <= 4 { 5 } else { 4 } } else if e.len() <= 4 { 4 } else { 3 };
        us.push(Unit { alpha: order_alphabet(&e), ends: e, depth });
    }
    for e in shapes(&nasty_values(), 3) {
        us.push(Unit { alpha: order_alphabet(&e), ends: e, depth: 3 });
    }
    // long functions (cursor jumps over many segments): 1..n strictly increasing, and every list of length 6 over {1..6}
    for n in 6..=(if thorough { 12 } else { 9 }) {
        let e: Vec<f64> = (1..=n).map(|i| i as f64).collect();
        us.push(Unit { alpha: order_alphabet(&e), ends: e, depth: if n <= 8 { 3 } else { 2 } });
    }
    for e in shapes(&[1.0, 2.0, 3.0, 4.0, 5.0, 6.0], 6).into_iter().filter(|e| e.len() == 6) {
        us.push(Unit { alpha: order_alphabet(&e), ends: e, depth: if thorough { 3 } else { 2 } });
    }
    // big functions around size thresholds (every pair of arguments), and long sequences over a reduced alphabet
    for e in big_shapes(thorough, if thorough { 257 } else { 129 }) {
        if e.len() > 12 {
            us.push(Unit { alpha: order_alphabet(&e), ends: e, depth: 2 });
        }
    }
    for n in [48usize, 64, 100] {
        let e = iota(n);
        us.push(Unit { alpha: reduced_alphabet(&e), ends: e, depth: 3 });
    }
    for (e, d) in [(vec![1.0, 2.0], 11usize), (vec![1.0, 2.0, 3.0], 9), (vec![1.0, 2.0, 2.0, 3.0], 8), (iota(4), 7), (iota(5), 7), (iota(6), 6), (iota(8), 5)] {
        us.push(Unit { alpha: reduced_alphabet(&e), ends: e, depth: if thorough { d } else { d - 1 } });
    }
    let n = us.len();
    let us = Arc::new(us);
    let body: Body = Box::new(move |unit, cx| {
        let u = &us[unit];
        let kind = cx.choose(2);
        let d = cx.choose(u.depth + 1); // 0..=depth arguments (the empty sequence included)
        let mut idxs = Vec::with_capacity(d);
        for _ in 0..d {
            idxs.push(cx.choose(u.alpha.len()));
        }
        let xs: Vec<f64> = idxs.iter().map(|&i| u.alpha[i]).collect();
        let dec = xs.windows(2).any(|w| w[1] < w[0]);
        let atend = xs.iter().any(|x| u.ends.iter().any(|e| e == x));
        if dec {
            cx.class(0);
        } else if d >= 2 {
            cx.class(1);
        }
        if atend {
            cx.class(2);
        }
        if xs.iter().any(|x| x.is_infinite()) {
            cx.class(3);
        }
        if xs.windows(2).any(|w| w[1] == w[0]) {
            cx.class(4);
        }
        if d == 0 {
            cx.class(5);
        }
        if dec || atend {
            cx.nontrivial();
        }
        if cx.sampling() {
            cx.sample(json!({"ends": fjs(&u.ends), "arguments": fjs(&xs), "piece_kind": kind}));
        }
        if kind == 0 {
            run(&probe_pw(&u.ends), u, &idxs, "Probe", cx)
        } else {
            run(&poly3_pw(&u.ends), u, &idxs, "Poly3", cx)
        }
    });
    // every number of pieces for piece types of every size: thresholds in segments and in bytes ((n-1)*size_of::<Segment<T>>()
    // crossing 4, 16, 64 KiB) are crossed for every type, with arguments in the last cells, on breakpoints and after a decrease
    fn sized<T: Nums + Evaluate>(n: usize, kind: usize, name: &str, cx: &mut Cx) -> Verdict {
        let ends: Vec<f64> = (0..n).map(|i| 0.5 + i as f64 * 0.25).collect();
        let pw: Piecewise<T> = Piecewise {
            segments: ends.iter().enumerate().map(|(i, &e)| Segment { end: e, poly: T::from_nums(&(0..T::N).map(|l| 1.0 + (i % 251) as f64 + 0.125 * l as f64).collect::<Vec<_>>()) }).collect(),
        };
        let e = |k: usize| ends[k.min(n - 1)];
        let xs: Vec<f64> = match kind {
            0 => vec![e(n.saturating_sub(3)), exact::pred(e(n.saturating_sub(2))), e(n.saturating_sub(2)), exact::succ(e(n.saturating_sub(2))), e(n - 1), e(n - 1) + 7.0],
            1 => (0..n).step_by(37).map(|k| ends[k] - 0.125).chain([e(n.saturating_sub(2)) + 0.125, e(n - 1) + 1.0]).collect(),
            2 => vec![0.0, e(n / 2), e(n - 1) - 0.125, 0.25, e(n - 1) + 1.0, e(n.saturating_sub(2))],
            // a long strictly decreasing run after the cursor has moved (every argument still belongs to the running maximum's
            // piece), then increasing again
            _ => {
                let top = e(n / 2) - 0.125;
                let mut v = vec![top];
                v.extend((1..=40).map(|k| top - k as f64 * (top + 3.0) / 41.0));
                v.extend([top - 0.0625, top + 0.5, e(n - 1) - 0.125, e(n - 1) + 2.0]);
                v
            }
        };
        let idxs: Vec<usize> = (0..xs.len()).collect();
        let u = Unit { ends, alpha: xs, depth: 0 };
        cx.nontrivial();
        if cx.sampling() {
            cx.sample(json!({"piece_type": name, "pieces": n, "arguments": fjs(&u.alpha)}));
        }
        run(&pw, &u, &idxs, name, cx)
    }
    let sizes = Phase {
        name: "every-number-of-pieces",
        units: 7,
        split: 1,
        body: Box::new(move |unit, cx| {
            let top = if thorough { 3300 } else { 1100 };
            let k = cx.choose(top - 1 + 4);
            let n = if k < top - 1 { 2 + k } else { [4097usize, 8193, 16385, 65537][k - (top - 1)] };
            let kind = cx.choose(4);
            match unit {
                0 => sized::<Poly0>(n, kind, "Poly0", cx),
                1 => sized::<Poly1>(n, kind, "Poly1", cx),
                2 => sized::<Poly3>(n, kind, "Poly3", cx),
                3 => sized::<Poly5>(n, kind, "Poly5", cx),
                4 => sized::<Poly7>(n, kind, "Poly7", cx),
                5 => sized::<Poly8>(n, kind, "Poly8", cx),
                _ => sized::<Log<Poly2>>(n, kind, "Log<Poly2>", cx),
            }
        }),
        classes: vec![],
        bounds: json!({"piece_types": "Poly0, Poly1, Poly3, Poly5, Poly7, Poly8, Log<Poly2> (Segment sizes 16..80 bytes)", "pieces": if thorough {"every n from 2 to 3300, and 4097, 8193, 16385, 65537"} else {"every n from 2 to 1100, and 4097, 8193, 16385, 65537"},
            "arguments": "four sequences: a run of 40 strictly decreasing arguments after the cursor has reached the middle piece, then increasing again; around the last two breakpoints (pred / exact / succ) and beyond; an increasing sweep through every 37th cell into the last two cells; a sequence with decreases (first cell, middle breakpoint, last cell, back to the first cell, beyond, second-to-last breakpoint)"}),
    };
    // a piece type whose own evaluate panics at one argument: the caller catches the panic and goes on pulling from the same
    // iterator; the outputs after it must still be those of the running-maximum rule
    #[derive(Clone, Copy)]
    struct FlakyPiece {
        id: u32,
        poison: u64,
    }
    impl Evaluate for FlakyPiece {
        fn evaluate(&self, x: f64) -> f64 {
            if x.to_bits() == self.poison {
                panic!("piece refuses this argument");
            }
            Probe(self.id).evaluate(x)
        }
    }
    let fsh: Vec<Vec<f64>> = { let mut v = shapes(&[1.0, 2.0, 3.0, 4.0], 4); v.push(vec![1.0, 2.0, 2.0, 3.0, f64::INFINITY]); v };
    let nf = fsh.len();
    let fsh = Arc::new(fsh);
    let flaky = Phase {
        name: "sequences-with-a-panicking-piece",
        units: nf,
        split: 2,
        body: Box::new(move |unit, cx| {
            let ends = &fsh[unit];
            let alpha = order_alphabet(ends);
            let poison = alpha[cx.choose(alpha.len())];
            let pw: Piecewise<FlakyPiece> = Piecewise { segments: ends.iter().enumerate().map(|(i, &e)| Segment { end: e, poly: FlakyPiece { id: i as u32, poison: poison.to_bits() } }).collect() };
            let d = 1 + cx.choose(if thorough { 4 } else { 3 });
            let xs: Vec<f64> = (0..d).map(|_| alpha[cx.choose(alpha.len())]).collect();
            if xs.iter().any(|x| x.to_bits() == poison.to_bits()) && xs.last().map_or(false, |x| x.to_bits() != poison.to_bits()) {
                cx.nontrivial();
            }
            cx.evals(d as u64);
            if cx.sampling() {
                cx.sample(json!({"ends": fjs(ends), "argument_at_which_pieces_panic": fj(poison), "arguments": fjs(&xs)}));
            }
            let mut it = pw.evaluate_v(xs.clone());
            let mut m = f64::NEG_INFINITY;
            for (t, &x) in xs.iter().enumerate() {
                if x > m {
                    m = x;
                }
                let got = guard(|| it.next());
                let i = ref_index(ends, m);
                let want = guard(|| pw.segments[i].poly.evaluate(x));
                let ok = match (&got, &want) {
                    (Ok(Some(a)), Ok(b)) => a.to_bits() == b.to_bits(),
                    (Err(_), Err(_)) => true,
                    _ => false,
                };
                if !ok {
                    return Err(Fail::new(
                        "after a panic raised by a piece's own evaluate (caught by the caller), evaluate_v no longer follows the running-maximum rule",
                        json!({"ends": fjs(ends), "argument_at_which_pieces_panic": fj(poison), "arguments": fjs(&xs[..=t]), "got": format!("{:?}", got), "expected": format!("{:?}", want)}),
                    ));
                }
            }
            Ok(())
        }),
        classes: vec![],
        bounds: json!({"shapes": "end lists of length 1..4 over {1..4}, [1,2,2,3,+inf]", "piece type": "a probe piece whose evaluate panics at one argument of A(ends) (every choice)", "sequences": "every sequence of length 1..3 (4 thorough) over A(ends), panics caught by the caller, the iterator kept"}),
    };
    Check {
        id: "C12",
        rule: "choice tree: shape (unit) x piece type x sequence length x one argument per position; each leaf is one argument sequence fed to the real evaluate_v through an input iterator that counts next() calls; non-trivial = sequence containing a decrease or an argument equal to an end".into(),
        assumptions: vec!["reference: running maximum m_t, index = first end > m_t else last; expected bits from the selected real piece's own evaluate".into()],
        phases: vec![Phase {
            name: "sequences",
            units: n,
            body,
            classes: vec![
                ("sequence_with_decrease", true),
                ("non_decreasing_sequence_len>=2", true),
                ("argument_equal_to_an_end", true),
                ("infinite_argument", true),
                ("repeated_argument", true),
                ("empty_sequence", true),
            ],
            split: 2,
            bounds: json!({"three_arguments_on_big_functions": "1..n for n = 48, 64, 100: every sequence of <= 3 arguments over the reduced alphabet", "long_sequences": "reduced alphabet (every end, one point per cell, one below, one above) on [1,2], [1,2,3], [1,2,2,3], 1..4, 1..5, 1..6, 1..8 with depth 10, 8, 7, 6, 6, 5, 4 (+1 thorough); 1..n for the threshold sizes up to 129 (257) with every pair of arguments",
                "shapes": "all non-decreasing end lists of length 1..5 over {1..5}, of length 1..3 over the nasty value set, of length 6 over {1..6} (depth 2; 3 thorough), and the lists 1..n for n=6..9 (12 thorough; depth 3 up to n=8, then 2)",
                "sequences": if thorough {"every sequence of length 0..5 (0..4 for 5 pieces) over A(ends)"} else {"every sequence of length 0..4 (0..3 for 5 pieces) over A(ends)"},
                "piece_types": "Probe, Poly3"}),
        }, sizes, flaky],
        extra: Default::default(),
        controls: vec![],
    }
}
