//! C01 — polynomial and log-polynomial evaluation equals the mathematical value.
use crate::common::*;
use exact::{dy, Dy};
use serde_json::json;
use std::sync::Arc;
use xplore::*;

#[derive(Clone, Copy, Debug)]
enum Form {
    P(usize),    // Poly<d>
    N(usize),    // PolyN of this length
    L(usize),    // Log<Poly<d>>
}
impl Form {
    fn len(&self) -> usize {
        match *self {
            Form::P(d) | Form::L(d) => d + 1,
            Form::N(l) => l,
        }
    }
    fn name(&self) -> String {
        match *self {
            Form::P(d) => format!("Poly{d}"),
            Form::N(l) => format!("PolyN(len {l})"),
            Form::L(d) => format!("Log<Poly{d}>"),
        }
    }
}
fn ev_poly<T: Nums + Evaluate>(c: &[f64], x: f64) -> f64 {
    T::from_nums(c).evaluate(x)
}
fn ev_log<T: Nums + Evaluate>(c: &[f64], v: f64) -> f64 {
    Log(T::from_nums(c)).evaluate(v)
}
fn eval(form: Form, c: &[f64], x: f64) -> Result<f64, String> {
    guard(|| match form {
        Form::P(d) => by_degree!(d, ev_poly(c, x)),
        Form::N(_) => PolyN(c.to_vec()).evaluate(x),
        Form::L(d) => by_degree!(d, ev_log(c, x)),
    })
}

// ---- exact stratum: x = a/4, coefficients small integers -> i128 fixed point
const EX_COEF: [f64; 5] = [0.0, 1.0, -1.0, 2.0, -3.0];
const EX_COEF_N: [f64; 3] = [0.0, 1.0, -2.0];
const EX_ARGS: [f64; 11] = [0.0, 1.0, -1.0, 2.0, -2.0, 3.0, -3.0, 0.5, -0.5, 1.5, -1.25];

fn exact_phase(thorough: bool) -> Phase {
    let mut forms = vec![];
    for d in 0..=8 {
        forms.push(Form::P(d));
    }
    for l in 0..=12 {
        forms.push(Form::N(l));
    }
    for d in 0..=8 {
        forms.push(Form::L(d));
    }
    let forms = Arc::new(forms);
    let nf = forms.len();
    let f2 = forms.clone();
    Phase {
        name: "exact-stratum",
        units: nf * EX_ARGS.len(),
        split: 2,
        body: Box::new(move |unit, cx| {
            let form = f2[unit / EX_ARGS.len()];
            let x = EX_ARGS[unit % EX_ARGS.len()];
            let n = form.len();
            let full = match form {
                Form::N(l) => l <= 9 || (thorough && l <= 10),
                _ => true,
            };
            let alpha: &[f64] = if full { &EX_COEF } else { &EX_COEF_N };
            if let Form::L(_) = form {
                if unit % EX_ARGS.len() != 0 {
                    return Ok(()); // Log forms are exact at v = 1 only: one argument, the other units are single empty leaves
                }
            }
            let mut c = [0.0f64; 13];
            for i in 0..n {
                c[i] = *cx.pick(alpha);
            }
            let c = &c[..n];
            // for Log forms the argument is v with ln v = 0 exactly (v = 1) — exactness applies there only
            let (arg, xx) = if let Form::L(_) = form { (1.0, 0.0) } else { (x, x) };
            let got = eval(form, c, arg);
            cx.evals(1);
            // exact value: sum c_i (a/4)^i with a = 4x
            let a = (xx * 4.0) as i128;
            let mut sum: i128 = 0;
            let mut pw: i128 = 1; // a^i
            let scale = |i: usize| -> i128 { 1i128 << (2 * (12 - i)) }; // 4^(12-i)
            for i in 0..n {
                sum += (c[i] as i128) * pw * scale(i);
                pw *= a;
            }
            let want = (sum as f64) / (4f64.powi(12)); // exact: |sum| < 2^53 * 4^12 is a multiple of a power of two
            let nz = c.iter().filter(|v| **v != 0.0).count();
            if nz >= 2 && xx != 0.0 && xx != 1.0 {
                cx.nontrivial();
            }
            cx.class(if xx < 0.0 { 0 } else { 1 });
            cx.class(if xx.abs() < 1.0 { 2 } else { 3 });
            if nz == 1 {
                cx.class(4);
            }
            if cx.sampling() {
                cx.sample(json!({"form": form.name(), "coefficients": c, "argument": arg, "exact_value": want}));
            }
            let detail = |g: serde_json::Value| json!({"form": form.name(), "coefficients": fjs(c), "argument": fj(arg), "exact_value": fj(want), "got": g});
            match got {
                Err(p) => Err(Fail::new(format!("evaluate panicked: {p}"), detail(json!(p)))),
                Ok(g) if g == want => Ok(()),
                Ok(g) => Err(Fail::new("evaluation is not exact although every partial term is exactly representable", detail(fj(g)))),
            }
        }),
        classes: vec![("negative_argument", true), ("non_negative_argument", true), ("|x|<1", true), ("|x|>=1", true), ("unit_vector(single lane)", true)],
        bounds: json!({"forms": "Poly0..Poly8, PolyN of length 0..12, Log<Poly0..Poly8> at v=1",
            "coefficients": "full cube over {0,1,-1,2,-3} (PolyN of length 10..12: cube over {0,1,-2}; length 10 full in thorough)",
            "arguments": "{0,1,-1,2,-2,3,-3,1/2,-1/2,3/2,-5/4}", "oracle": "i128 fixed-point sum, numeric equality"}),
    }
}

// ---- rich stratum
const RICH_COEF: [f64; 10] = [0.0, 1.0, -1.0, 0.1, -0.3333333333333333, 3.141592653589793, -2.5e-3, 7.25e5, -1e6, 1e-9];
const RICH_ARGS: [f64; 26] = [0.0, 0.1, -0.1, 0.3333333333333333, -0.3333333333333333, 0.999999, -0.999999, 1.000001, 2.5, -2.5, 7.3, -7.3, 1e3, -1e3, 1e-3, -1e-3, 1.0, -1.0,
    1e5, -3e6, 2.5e7, 1e-5, -3e-7, 65536.0, 1.0000000000000002, -0.9999999999999999];
const LOG_ARGS: [f64; 20] = [1.0, 0.5, 2.0, 7.0, 1e-3, 1e3, 0.999999, 1.0000000000000002, 1e-300, 1e300, 2.718281828459045, 5e-324, 1e-310, f64::MAX,
    1.000000001, 0.9999999997, 1.000000000001, 1.000000005, 1.0007, 0.9995];

struct Tables {
    // term[xi][lane][ci] = c * x^lane exactly, and its magnitude
    term: Vec<Vec<Vec<Dy>>>,
    xs: Vec<f64>,
}
fn tables(xs: &[f64], lanes: usize) -> Tables {
    let term = xs
        .iter()
        .map(|&x| {
            let xd = dy(x);
            (0..lanes).map(|i| { let p = xd.powi(i as u32); RICH_COEF.iter().map(|&c| dy(c).mul(&p)).collect() }).collect()
        })
        .collect();
    Tables { term, xs: xs.to_vec() }
}

fn rich_phase(thorough: bool) -> Phase {
    let mut forms = vec![];
    for d in 0..=8 {
        forms.push(Form::P(d));
    }
    for l in [0usize, 1, 2, 3, 6, 9, 10, 12] {
        forms.push(Form::N(l));
    }
    let nf = forms.len();
    let tb = Arc::new(tables(&RICH_ARGS, 13));
    Phase {
        name: "rich-stratum",
        units: nf * RICH_ARGS.len(),
        split: 3,
        body: Box::new(move |unit, cx| {
            let form = forms[unit / RICH_ARGS.len()];
            let xi = unit % RICH_ARGS.len();
            let x = tb.xs[xi];
            let n = form.len();
            let width = if n <= 6 { 10 } else if n <= 9 { if thorough { 6 } else { 4 } } else if thorough && n <= 10 { 4 } else { 3 };
            let mut ci = [0usize; 13];
            for i in 0..n {
                ci[i] = cx.choose(width);
            }
            let c: Vec<f64> = (0..n).map(|i| RICH_COEF[ci[i]]).collect();
            let got = eval(form, &c, x);
            cx.evals(1);
            let mut s = Dy::zero();
            let mut m = Dy::zero();
            for i in 0..n {
                let t = &tb.term[xi][i][ci[i]];
                s = s.add(t);
                m = m.add(&t.abs());
            }
            let deg = if n == 0 { 0 } else { n - 1 };
            let bound = m.mul_i(4 * (deg as i64 + 2)).mul_pow2(-53);
            let nz = c.iter().filter(|v| **v != 0.0).count();
            if nz >= 2 && x != 0.0 && x != 1.0 {
                cx.nontrivial();
            }
            // cancellation bucket
            let canc = if m.is_zero() { 0 } else if s.is_zero() { 3 } else { let r = m.ilog2() - s.ilog2(); if r <= 1 { 0 } else if r <= 10 { 1 } else { 2 } };
            cx.class(canc);
            cx.class(if x < 0.0 { 4 } else { 5 });
            cx.class(if x.abs() < 1.0 { 6 } else { 7 });
            let detail = |g: serde_json::Value, err: f64| json!({"form": form.name(), "coefficients": fjs(&c), "argument": fj(x), "exact_value~": s.to_f64(), "bound~": bound.to_f64(), "abs_error~": err, "got": g});
            if cx.sampling() {
                cx.sample(detail(json!(format!("{:?}", got)), 0.0));
            }
            match got {
                Err(p) => Err(Fail::new(format!("evaluate panicked: {p}"), detail(json!(p), 0.0))),
                Ok(g) if !g.is_finite() => Err(Fail::new("evaluate returned a non-finite value although no partial term overflows", detail(fj(g), f64::NAN))),
                Ok(g) => {
                    let err = dy(g).sub(&s).abs();
                    if err.le(&bound) {
                        Ok(())
                    } else {
                        Err(Fail::new("evaluation error exceeds 4(n+2)*2^-53*sum|c_i||x|^i", detail(fj(g), err.to_f64())))
                    }
                }
            }
        }),
        classes: vec![
            ("no_cancellation", true), ("cancellation_up_to_2^10", true), ("cancellation_beyond_2^10", true), ("exact_zero_sum", true),
            ("negative_argument", true), ("non_negative_argument", true), ("|x|<1", true), ("|x|>=1", true),
        ],
        bounds: json!({"forms": "Poly0..Poly8, PolyN of length 0,1,2,3,6,9,10,12",
            "coefficients": format!("cube over the first w values of {{0,1,-1,0.1,-1/3,pi,-2.5e-3,7.25e5,-1e6,1e-9}}: w=10 for <=6 coefficients, w={} for 7..9, w=3 for 10..12 (4 for 10 thorough)", if thorough {6} else {4}),
            "arguments": "{0,+-0.1,+-1/3,+-0.999999,1.000001,+-2.5,+-7.3,+-1e3,+-1e-3,+-1,1e5,-3e6,2.5e7,1e-5,-3e-7,65536,succ(1),-pred(1)}",
            "oracle": "exact dyadic sum S and bound B=4(n+2)*2^-53*sum|c_i||x|^i; verdict |got-S|<=B decided in exact arithmetic"}),
    }
}

fn log_phase(thorough: bool) -> Phase {
    // for each v: L = ln v (f64), tables at x = L
    let ls: Vec<f64> = LOG_ARGS.iter().map(|v| v.ln()).collect();
    let tb = Arc::new(tables(&ls, 9));
    Phase {
        name: "log-wrappers",
        units: 9 * LOG_ARGS.len(),
        split: 3,
        body: Box::new(move |unit, cx| {
            let d = unit / LOG_ARGS.len();
            let vi = unit % LOG_ARGS.len();
            let v = LOG_ARGS[vi];
            let l = tb.xs[vi];
            let n = d + 1;
            let width = if n <= 5 { 10 } else if thorough { 6 } else { 4 };
            let mut ci = [0usize; 9];
            for i in 0..n {
                ci[i] = cx.choose(width);
            }
            let c: Vec<f64> = (0..n).map(|i| RICH_COEF[ci[i]]).collect();
            let got = eval(Form::L(d), &c, v);
            cx.evals(1);
            let mut s = Dy::zero();
            let mut m = Dy::zero();
            let mut dm = Dy::zero(); // sum i |c_i| |L|^(i-1)
            let la = dy(l).abs();
            for i in 0..n {
                let t = &tb.term[vi][i][ci[i]];
                s = s.add(t);
                m = m.add(&t.abs());
                if i >= 1 {
                    dm = dm.add(&dy(c[i]).abs().mul(&la.powi(i as u32 - 1)).mul_i(i as i64));
                }
            }
            // bound: evaluation bound at L plus the effect of a 2-ulp change of L (ln is trusted to 1 ulp)
            let bound = m.mul_i(4 * (d as i64 + 2)).mul_pow2(-53).add(&dm.mul(&dy(exact::ulp(l))).mul_i(2));
            if c.iter().filter(|v| **v != 0.0).count() >= 2 && v != 1.0 {
                cx.nontrivial();
            }
            cx.class(if v < 1.0 { 0 } else if v == 1.0 { 1 } else { 2 });
            let detail = |g: serde_json::Value, err: f64| json!({"form": format!("Log<Poly{d}>"), "coefficients": fjs(&c), "v": fj(v), "ln_v": fj(l), "exact_value_at_ln_v~": s.to_f64(), "bound~": bound.to_f64(), "abs_error~": err, "got": g});
            if cx.sampling() {
                cx.sample(detail(json!(format!("{:?}", got)), 0.0));
            }
            match got {
                Err(p) => Err(Fail::new(format!("Log evaluate panicked: {p}"), detail(json!(p), 0.0))),
                Ok(g) if !g.is_finite() => Err(Fail::new("Log evaluate returned a non-finite value", detail(fj(g), f64::NAN))),
                Ok(g) => {
                    let err = dy(g).sub(&s).abs();
                    if err.le(&bound) {
                        Ok(())
                    } else {
                        Err(Fail::new("Log<..>::evaluate(v) is not the polynomial's value at ln v within the bound", detail(fj(g), err.to_f64())))
                    }
                }
            }
        }),
        classes: vec![("v<1", true), ("v=1", true), ("v>1", true)],
        bounds: json!({"forms": "Log<Poly0..Poly8>", "coefficients": format!("cube over the first w of the rich coefficient values: w=10 up to degree 4, w={} above", if thorough {6} else {4}),
            "arguments": "v in {1,0.5,2,7,1e-3,1e3,0.999999,1+2^-52,1e-300,1e300,e,5e-324 (subnormal),1e-310 (subnormal),MAX,1+1e-9,1-3e-10,1+1e-12,1+5e-9,1.0007,0.9995}", "oracle": "L=ln v as f64; exact value at L; bound = evaluation bound + 2 ulp(L) * sum i|c_i||L|^(i-1)"}),
    }
}

/// PolyN (Horner, any length) at arguments whose square over/underflows while every term c_i*x^i stays in range.
/// (For the fixed-degree forms the powers x^2, x^4, x^8 of their documented Estrin scheme count as partial terms, so this
/// stratum is for PolyN only; see DESIGN 10.7.)
fn extreme_phase(thorough: bool) -> Phase {
    let xs: Vec<f64> = vec![1e200, -1e200, 1e-200, -1e-200, 1e160, 1e-160, 1.3e154, 1.5e-154, 3e307, 1e-300];
    let lens: Vec<usize> = if thorough { (1..=40).collect() } else { vec![1, 2, 3, 5, 8, 9, 10, 11, 12, 13, 16, 17, 32, 33] };
    let nl = lens.len();
    let nx = xs.len();
    Phase {
        name: "polyn-extreme-arguments",
        units: nl * nx,
        split: 1,
        body: Box::new(move |unit, cx| {
            let len = lens[unit / nx];
            let x = xs[unit % nx];
            // coefficient i = a_i / x^i (rounded) with a_i from a small alphabet, kept only when it is a normal number: every term is ~a_i
            let amp = [0.0, 1.0, -2.5, 3.0];
            let mut c = vec![0.0f64; len];
            for i in 0..len.min(4) {
                let a = *cx.pick(&amp);
                let ci = a / x.powi(i as i32);
                c[i] = if ci.is_normal() && x.powi(i as i32).is_normal() { ci } else { 0.0 };
            }
            let got = eval(Form::N(len), &c, x);
            cx.evals(1);
            let xd = dy(x);
            let mut s = Dy::zero();
            let mut m = Dy::zero();
            let mut p = Dy::from_i64(1);
            for &ci in &c {
                let t = dy(ci).mul(&p);
                s = s.add(&t);
                m = m.add(&t.abs());
                p = p.mul(&xd);
            }
            let bound = m.mul_i(4 * (len as i64 + 1)).mul_pow2(-53);
            if c.iter().filter(|v| **v != 0.0).count() >= 2 {
                cx.nontrivial();
            }
            cx.class(if x.abs() > 1.0 { 0 } else { 1 });
            let detail = |g: serde_json::Value| json!({"form": format!("PolyN(len {len})"), "coefficients": fjs(&c), "argument": fj(x), "exact_value~": s.to_f64(), "bound~": bound.to_f64(), "got": g});
            if cx.sampling() {
                cx.sample(detail(json!(format!("{:?}", got))));
            }
            match got {
                Err(p) => Err(Fail::new(format!("evaluate panicked: {p}"), detail(json!(p)))),
                Ok(g) if !g.is_finite() => Err(Fail::new("PolyN::evaluate is not finite although every term c_i*x^i is an ordinary number", detail(fj(g)))),
                Ok(g) => {
                    if dy(g).sub(&s).abs().le(&bound) { Ok(()) } else { Err(Fail::new("PolyN::evaluate error exceeds the bound at an extreme argument whose terms are all in range", detail(fj(g)))) }
                }
            }
        }),
        classes: vec![("|x|_huge", true), ("|x|_tiny", true)],
        bounds: json!({"forms": format!("PolyN of length {:?}", if thorough { "1..40".to_string() } else { "1,2,3,5,8..13,16,17,32,33".to_string() }),
            "arguments": "{+-1e200, +-1e-200, 1e160, 1e-160, 1.3e154, 1.5e-154, 3e307, 1e-300}", "coefficients": "c_i = a_i/x^i for i < 4 with a_i in {0,1,-2.5,3} (zero when not a normal number), zero beyond: every term is of ordinary size while x*x over/underflows"}),
    }
}

/// evaluation right next to a root: (x-r)^n expanded (integer coefficients, exactly representable) at x = r(1+d).
/// Massive cancellation, the exact value is tiny compared with the terms; the bound is relative to the terms.
fn near_root_phase(_thorough: bool) -> Phase {
    let roots: Vec<f64> = vec![3.0, -7.0, 100.0, 1000.0, -2000.0, 1e5];
    let deltas: Vec<f64> = vec![0.0, 3.53e-8, -2e-6, 1e-12, 2.220446049250313e-16, -1e-4];
    let nr = roots.len();
    Phase {
        name: "next-to-a-root",
        units: nr * 4,
        split: 0,
        body: Box::new(move |unit, cx| {
            let r = roots[unit / 4];
            let n = 1 + unit % 4; // (x-r)^n, n = 1..4
            // binomial expansion with exact integer arithmetic
            let mut c = vec![1i128];
            for _ in 0..n {
                let mut d = vec![0i128; c.len() + 1];
                for (i, &ci) in c.iter().enumerate() {
                    d[i + 1] += ci;
                    d[i] -= ci * (r as i128);
                }
                c = d;
            }
            let cf: Vec<f64> = c.iter().map(|&v| v as f64).collect();
            if c.iter().zip(&cf).any(|(a, b)| *a != *b as i128) {
                return Ok(()); // coefficients not exactly representable: skip
            }
            let x = r * (1.0 + deltas[cx.choose(deltas.len())]);
            let formk = cx.choose(3);
            let (form, arg) = match formk {
                0 => (Form::N(n + 1), x),
                1 => (Form::P(n), x),
                _ => (Form::N(n + 1 + 3), x), // the same polynomial with three trailing zero coefficients
            };
            let mut cc = cf.clone();
            if formk == 2 {
                cc.extend([0.0, 0.0, 0.0]);
            }
            let got = eval(form, &cc, arg);
            cx.evals(1);
            let xd = dy(x);
            let mut s = Dy::zero();
            let mut m = Dy::zero();
            let mut p = Dy::from_i64(1);
            for &ci in &cc {
                let t = dy(ci).mul(&p);
                s = s.add(&t);
                m = m.add(&t.abs());
                p = p.mul(&xd);
            }
            let deg = cc.len() - 1;
            let bound = m.mul_i(4 * (deg as i64 + 2)).mul_pow2(-53);
            cx.nontrivial();
            let detail = |g: serde_json::Value| json!({"form": form.name(), "polynomial": format!("(x - {r})^{n}"), "coefficients": fjs(&cc), "argument": fj(x), "exact_value~": s.to_f64(), "bound~": bound.to_f64(), "got": g});
            if cx.sampling() {
                cx.sample(detail(json!(format!("{:?}", got))));
            }
            match got {
                Err(pn) => Err(Fail::new(format!("evaluate panicked: {pn}"), detail(json!(pn)))),
                Ok(g) if !g.is_finite() => Err(Fail::new("evaluate returned a non-finite value next to a root", detail(fj(g)))),
                Ok(g) => {
                    let err = dy(g).sub(&s).abs();
                    if !bound.is_zero() {
                        cx.ratio(err.to_f64() / bound.to_f64());
                    }
                    if err.le(&bound) { Ok(()) } else { Err(Fail::new("evaluation error next to a root exceeds 4(n+2)*2^-53*sum|c_i||x|^i", detail(fj(g)))) }
                }
            }
        }),
        classes: vec![],
        bounds: json!({"polynomials": "(x-r)^n expanded exactly, r in {3,-7,100,1000,-2000,1e5}, n = 1..4, as PolyN, as Poly<n> and as PolyN with three trailing zero coefficients",
            "arguments": "x = r(1+d), d in {0, 3.53e-8, -2e-6, 1e-12, 2^-52, -1e-4}"}),
    }
}

pub fn check(thorough: bool, _seed: u64) -> Check {
    Check {
        id: "C01",
        rule: "choice tree: (form, argument) unit x one coefficient per lane; each leaf is one (form, coefficient vector, argument) evaluated by the real evaluate; non-trivial = >=2 non-zero coefficients and argument not in {0,1}; coefficient and argument alphabets are duplicate-free so distinct leaves are distinct inputs".into(),
        assumptions: vec!["f64::ln (glibc) within 1 ulp".into(), "partial terms of the alphabets neither overflow nor underflow".into()],
        phases: vec![exact_phase(thorough), rich_phase(thorough), log_phase(thorough), extreme_phase(thorough), near_root_phase(thorough), concrete_call_phase()],
        extra: Default::default(),
        controls: vec![("oracle rejects a value that is off by more than the bound", Box::new(|| {
            let c: [f64; 3] = [1.0, -1.0, 0.1];
            let x: f64 = 2.5;
            let s = dy(1.0).add(&dy(-1.0).mul(&dy(x))).add(&dy(0.1).mul(&dy(x).powi(2)));
            let m = dy(1.0).add(&dy(x)).add(&dy(0.1).mul(&dy(x).powi(2)));
            let b = m.mul_i(16).mul_pow2(-53);
            let good = c[2].mul_add(x * x, c[1].mul_add(x, c[0])); // computed by the harness, not by the subject
            if !dy(good).sub(&s).abs().le(&b) { return Err("good value rejected".into()); }
            if dy(good * (1.0 + 1e-13)).sub(&s).abs().le(&b) { return Err("bad value accepted".into()); }
            Ok(())
        }))],
    }
}


/// `f.evaluate(x)` written in method-call syntax on every concrete form type must be the trait's `Evaluate::evaluate` (inside
/// generic code the call always resolves to the trait; on a concrete type an inherent method of the same name would win)
fn concrete_call_phase() -> Phase {
    type Run = Box<dyn Fn(&[f64], f64) -> (f64, f64) + Send + Sync>;
    let mut cases: Vec<(String, usize, Run)> = vec![];
    macro_rules! form { ($($t:ty),*) => {$(
        cases.push((type_name::<$t>(), <$t as Nums>::N, Box::new(|c: &[f64], x: f64| {
            let f: $t = <$t as Nums>::from_nums(c);
            #[allow(unstable_name_collisions)]
            let m = f.evaluate(x);
            (m, <$t as Evaluate>::evaluate(&f, x))
        })));
    )*}; }
    form!(Poly0, Poly1, Poly2, Poly3, Poly4, Poly5, Poly6, Poly7, Poly8, Log<Poly0>, Log<Poly1>, Log<Poly2>, Log<Poly3>, Log<Poly4>, Log<Poly5>, Log<Poly6>, Log<Poly7>, Log<Poly8>,
          IntOfLog<Poly0>, IntOfLog<Poly1>, IntOfLog<Poly2>, IntOfLog<Poly3>, IntOfLog<Poly4>, IntOfLog<Poly5>, IntOfLog<Poly6>, IntOfLog<Poly7>, IntOfLog<Poly8>, IntOfLogPoly4,
          Segment<Poly3>, Segment<Log<Poly1>>);
    for len in [0usize, 1, 4, 9, 12] {
        cases.push((format!("PolyN(len {len})"), len, Box::new(|c: &[f64], x: f64| {
            let f = PolyN(c.to_vec());
            #[allow(unstable_name_collisions)]
            let m = f.evaluate(x);
            (m, <PolyN as Evaluate>::evaluate(&f, x))
        })));
    }
    let n = cases.len();
    let cases = Arc::new(cases);
    Phase {
        name: "method-call-syntax-on-concrete-types",
        units: n,
        split: 0,
        body: Box::new(move |unit, cx| {
            let (name, k, run) = &cases[unit];
            let x = [0.0, 1.0, 0.5, -2.5, 7.0, 1e-3, 3.0, 256.0][cx.choose(8)];
            let c: Vec<f64> = match cx.choose(3) {
                0 => (0..*k).map(|i| [1.5, -2.25, 3.125, -4.0625, 5.5, -6.75, 7.875, -8.9375, 9.96875, 0.5, -0.25, 2.0, 1.0][i % 13]).collect(),
                1 => (0..*k).map(|i| if i % 2 == 0 { 1.0 } else { 0.0 }).collect(),
                _ => (0..*k).map(|i| if i + 1 == *k { 3.0 } else { 0.0 }).collect(),
            };
            cx.nontrivial();
            cx.evals(2);
            if cx.sampling() {
                cx.sample(json!({"type": name, "numbers": c, "x": x}));
            }
            match guard(|| run(&c, x)) {
                Err(p) => Err(Fail::new(format!("{name}: evaluate panicked: {p}"), json!({"numbers": fjs(&c), "x": fj(x)}))),
                Ok((m, t)) if m.to_bits() != t.to_bits() && !(m.is_nan() && t.is_nan()) => Err(Fail::new(format!("{name}: f.evaluate(x) on the concrete type differs from Evaluate::evaluate(&f, x)"), json!({"numbers": fjs(&c), "x": fj(x), "method_call": fj(m), "trait_call": fj(t)}))),
                Ok(_) => Ok(()),
            }
        }),
        classes: vec![],
        bounds: json!({"types": "Poly0..Poly8, Log<..>, IntOfLog<..> of each, IntOfLogPoly4, Segment<Poly3>, Segment<Log<Poly1>>, PolyN of 5 lengths", "arguments": "{0,1,0.5,-2.5,7,1e-3,3,256}", "numbers": "3 vectors per type"}),
    }
}
