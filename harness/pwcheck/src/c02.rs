//! C02 — direct piecewise evaluation selects the half-open segment containing x.
use crate::common::*;
use serde_json::json;
use std::sync::Arc;
use xplore::*;

struct Unit {
    ends: Vec<f64>,
    alpha: Vec<f64>,
    positive: bool,
    nasty: bool,
}

fn units(thorough: bool) -> Vec<Unit> {
    let mut out = vec![];
    let v5 = [1.0, 2.0, 3.0, 4.0, 5.0];
    let v6 = [1.0, 2.0, 3.0, 4.0, 5.0, 6.0];
    let base = if thorough { shapes(&v6, 6) } else { shapes(&v5, 5) };
    for ends in base {
        out.push(Unit { alpha: order_alphabet(&ends), positive: true, nasty: false, ends });
    }
    // long lists (binary-search style implementations have length-dependent paths)
    for n in 6..=(if thorough { 40 } else { 17 }) {
        let ends: Vec<f64> = (1..=n).map(|i| i as f64).collect();
        out.push(Unit { alpha: order_alphabet(&ends), positive: true, nasty: false, ends });
        // the same with a run of duplicates in the middle and at the end
        let mut d: Vec<f64> = (1..=n).map(|i| i as f64).collect();
        d[n / 2] = d[n / 2 - 1];
        d[n - 1] = d[n - 2];
        out.push(Unit { alpha: order_alphabet(&d), positive: true, nasty: false, ends: d });
    }
    for n in 18..=(if thorough { 600 } else { 300 }) {
        let ends = iota(n);
        out.push(Unit { alpha: order_alphabet(&ends), positive: false, nasty: false, ends });
        let mut d = iota(n);
        d[n / 2] = d[n / 2 - 1];
        out.push(Unit { alpha: order_alphabet(&d), positive: false, nasty: false, ends: d });
    }
    for ends in big_shapes(thorough, 1025) {
        out.push(Unit { alpha: order_alphabet(&ends), positive: false, nasty: false, ends });
    }
    // magnitudes and nearly equal ends
    for vals in [vec![-1e6, -1.0, 1e-7, 1e6, 1e7], vec![1.0, 1.0 + 1e-10, 1.0 + 2e-10, 1.0 + 1e-9], vec![1e5, 1e5 * (1.0 + 1e-12), 1e6, 3e6, 1e7]] {
        for ends in shapes(&vals, 4) {
            out.push(Unit { alpha: order_alphabet(&ends), positive: false, nasty: false, ends });
        }
    }
    for ends in shapes(&nasty_values(), if thorough { 5 } else { 4 }) {
        out.push(Unit { alpha: order_alphabet(&ends), positive: false, nasty: true, ends });
    }
    out
}

/// `pw.evaluate(x)` in method-call syntax on the concrete type, the way a user of the library writes it (inside generic code the
/// call always resolves to the trait method; on a concrete type an inherent method of the same name would take precedence)
trait ConcreteEval {
    fn eval_as_written(&self, x: f64) -> f64;
}
macro_rules! concrete_eval { ($($t:ty),*) => {$(
    impl ConcreteEval for Piecewise<$t> {
        #[allow(unstable_name_collisions)]
        fn eval_as_written(&self, x: f64) -> f64 {
            let pw: &Piecewise<$t> = self;
            pw.evaluate(x)
        }
    }
)*}; }
concrete_eval!(Probe, Poly0, Poly1, Poly2, Poly3, Poly5, Poly8, Log<Poly0>, Log<Poly8>, IntOfLog<Poly0>, IntOfLogPoly4);

fn one<T: Evaluate>(pw: &Piecewise<T>, ends: &[f64], x: f64, kind: &str, cx: &mut Cx) -> Verdict
where
    Piecewise<T>: ConcreteEval,
{
    let got = guard(|| pw.eval_as_written(x));
    if let Ok(g) = &got {
        // ... and through the trait, fully qualified: the two must agree
        let t = guard(|| <Piecewise<T> as Evaluate>::evaluate(pw, x));
        if t.as_ref().map_or(true, |t| t.to_bits() != g.to_bits()) {
            return Err(Fail::new("pw.evaluate(x) on the concrete type and Evaluate::evaluate(&pw, x) disagree", json!({"ends": fjs(ends), "piece_type": kind, "x": fj(x), "method_call": fj(*g), "trait_call": format!("{:?}", t)})));
        }
    }
    cx.evals(1);
    let i = ref_index(ends, x);
    let want = pw.segments[i].evaluate(x);
    let detail = |got: String| {
        let body = format!("    let x = {};\n    assert_eq!(pw.evaluate(x), {}.0, \"first segment whose end is > x, else the last\");", lit(x), i);
        json!({"ends": fjs(ends), "piece_type": kind, "x": fj(x), "reference_segment": i, "expected": fj(want), "got": got, "rust_repro": repro(ends, &body)})
    };
    match got {
        Err(p) => Err(Fail::new(format!("Piecewise::evaluate panicked on a well-formed function: {p}"), detail(p.clone()))),
        Ok(g) if !bits_eq(g, want) => Err(Fail::new(
            "Piecewise::evaluate did not return the value of the first segment whose end is > x (or the last)",
            detail(format!("{:e}/{:#018x}", g, g.to_bits())),
        )),
        Ok(_) => Ok(()),
    }
}

pub fn check(thorough: bool, _seed: u64) -> Check {
    let us = Arc::new(units(thorough));
    let n = us.len();
    let u2 = us.clone();
    let body: Body = Box::new(move |unit, cx| {
        let u = &u2[unit];
        // kinds 0,1 and 4,5 for every shape; 2,3 (pieces that need positive arguments to be told apart) for positive shapes
        let kinds = if u.positive { 7 } else { 5 };
        let kind = { let k = cx.choose(kinds); if u.positive { k } else { [0, 1, 4, 5, 6][k] } };
        let x = *cx.pick(&u.alpha);
        let ends = &u.ends;
        let k = ends.len();
        // classes
        let at_end = ends.iter().any(|&e| e == x);
        let near = ends.iter().any(|&e| exact::pred(e) == x || exact::succ(e) == x);
        let lo = ends[0];
        let hi = ends[k - 1];
        if at_end {
            cx.class(0);
        }
        if near {
            cx.class(1);
        }
        if x < lo {
            cx.class(2);
        }
        if x >= hi {
            cx.class(3);
        }
        if x.is_infinite() {
            cx.class(4);
        }
        if ends.windows(2).any(|w| w[0] == w[1]) {
            cx.class(5);
        }
        if u.nasty {
            cx.class(6);
        }
        if k >= 2 && (at_end || near || x < lo || x >= hi) {
            cx.nontrivial();
        }
        if cx.sampling() {
            cx.sample(json!({"ends": fjs(ends), "piece_kind": kind, "x": fj(x)}));
        }
        match kind {
            0 => one(&probe_pw(ends), ends, x, "Probe", cx),
            1 => one(&poly1_pw(ends), ends, x, "Poly1", cx),
            2 => one(&poly3_pw(ends), ends, x, "Poly3", cx),
            3 => one(&logpoly8_pw(ends), ends, x, "Log<Poly8>", cx),
            // log-family piece types whose values can be told apart at any argument, negative ones included
            // (Log<Poly0> is a constant, IntOfLog<Poly0> is k + c*v)
            4 => one(&Piecewise { segments: ends.iter().enumerate().map(|(i, &e)| Segment { end: e, poly: Log(Poly0(10.0 + i as f64)) }).collect() }, ends, x, "Log<Poly0>", cx),
            5 => one(&Piecewise { segments: ends.iter().enumerate().map(|(i, &e)| Segment { end: e, poly: IntOfLog { k: 100.0 * (i as f64 + 1.0), poly: Poly0(0.5 + i as f64) } }).collect() }, ends, x, "IntOfLog<Poly0>", cx),
            // pieces whose own value is NaN at some non-NaN argument (a flat Poly1 at +-inf: c + 0*inf), alternating with sloped ones:
            // the selected piece's NaN is the answer, whatever another piece would give there
            _ => one(&Piecewise { segments: ends.iter().enumerate().map(|(i, &e)| Segment { end: e, poly: Poly1([10.0 * (i as f64 + 1.0), if i % 2 == 0 { 0.0 } else { 1.0 }]) }).collect() }, ends, x, "Poly1 (flat / sloped alternately)", cx),
        }
    });
    let ph = Phase {
        name: "select",
        units: n,
        body,
        classes: vec![
            ("x_equals_an_end", true),
            ("x_one_ulp_from_an_end", true),
            ("x_below_first_end", true),
            ("x_at_or_beyond_last_end", true),
            ("x_infinite", true),
            ("shape_with_duplicate_ends", true),
            ("nasty_value_shape", true),
        ],
        split: 0,
        bounds: json!({
            "shapes": if thorough {"all non-decreasing end lists of length 1..6 over {1..6} and of length 1..5 over the nasty set {-MAX,-1,-2^-1022,-0.0,+0.0,5e-324,1,succ(1),1e300,MAX,+inf}"}
                      else {"all non-decreasing end lists of length 1..5 over {1..5} and of length 1..4 over the nasty set {-MAX,-1,-2^-1022,-0.0,+0.0,5e-324,1,succ(1),1e300,MAX,+inf}"},
            "every_length": "1..n for every n up to 300 (600 thorough), plain and with the middle end duplicated", "long_lists": "1..n for n=6..17 (40 thorough) and for the threshold sizes (8..257 quick, 7..1025 thorough), plain and with duplicate runs; lists over {-1e6,-1,1e-7,1e6,1e7}, {1,1+1e-10,1+2e-10,1+1e-9}, {1e5,1e5(1+1e-12),1e6,3e6,1e7}",
            "queries": "order-complete alphabet A(ends): -inf,-MAX, below first end, each end and both one-ulp neighbours, >=2 interior points per cell, above last end, MAX, +inf",
            "piece_types": "Probe (identifies piece and argument), Poly1, Log<Poly0>, IntOfLog<Poly0>, Poly1 alternately flat and sloped (NaN at infinite arguments) for every shape; Poly3, Log<Poly8> for positive ends"
        }),
    };
    // every number of pieces for piece types of every size (thresholds in segments and in bytes are crossed for each type)
    fn sized<T: Nums + Evaluate>(n: usize, stride: usize, name: &str, cx: &mut Cx) -> Verdict
    where
        Piecewise<T>: ConcreteEval,
    {
        let ends: Vec<f64> = (0..n).map(|i| 0.5 + i as f64 * 0.25).collect();
        let pw: Piecewise<T> = Piecewise {
            segments: ends.iter().enumerate().map(|(i, &e)| Segment { end: e, poly: T::from_nums(&(0..T::N).map(|l| 1.0 + (i % 251) as f64 + 0.125 * l as f64).collect::<Vec<_>>()) }).collect(),
        };
        cx.nontrivial();
        if cx.sampling() {
            cx.sample(json!({"piece_type": name, "pieces": n, "query_stride": stride}));
        }
        let mut ks: Vec<usize> = (0..n).step_by(stride).collect();
        ks.extend([n.saturating_sub(3), n.saturating_sub(2), n - 1, n / 2, n.saturating_sub(32).min(n - 1), n.saturating_sub(33).min(n - 1)]);
        for k in ks {
            let e = ends[k];
            for x in [exact::pred(e), e, exact::succ(e), e + 0.125] {
                one(&pw, &ends, x, name, cx)?;
            }
        }
        for x in [f64::NEG_INFINITY, 0.0, ends[n - 1] + 9.0, f64::INFINITY] {
            one(&pw, &ends, x, name, cx)?;
        }
        Ok(())
    }
    let sizes = Phase {
        name: "every-number-of-pieces",
        units: 6,
        split: 1,
        body: Box::new(move |unit, cx| {
            let top = if thorough { 3300 } else { 1100 };
            let k = cx.choose(top - 1 + 4);
            let n = if k < top - 1 { 2 + k } else { [4097usize, 8193, 16385, 65537][k - (top - 1)] };
            let stride = [29usize, 7][cx.choose(2)];
            match unit {
                0 => sized::<Poly0>(n, stride, "Poly0", cx),
                1 => sized::<Poly2>(n, stride, "Poly2", cx),
                2 => sized::<Poly3>(n, stride, "Poly3", cx),
                3 => sized::<Poly5>(n, stride, "Poly5", cx),
                4 => sized::<Poly8>(n, stride, "Poly8", cx),
                _ => sized::<IntOfLogPoly4>(n, stride, "IntOfLogPoly4", cx),
            }
        }),
        classes: vec![],
        bounds: json!({"piece_types": "Poly0, Poly2, Poly3, Poly5, Poly8, IntOfLogPoly4 (Segment sizes 16..80 bytes)", "pieces": if thorough {"every n from 2 to 3300, and 4097, 8193, 16385, 65537"} else {"every n from 2 to 1100, and 4097, 8193, 16385, 65537"},
            "queries": "at every 29th resp. 7th end, the last three ends, the middle end and the ends 32 and 33 from the last: pred(e), e, succ(e), e+1/8; and -inf, 0, beyond the last end, +inf"}),
    };
    Check {
        id: "C02",
        rule: "choice tree: shape (unit) x piece type x query; every leaf is one (function, x) input run on the real Piecewise::evaluate; non-trivial = >=2 pieces and x at an end, one ulp from an end, or beyond either extreme; alphabets de-duplicated on bits so distinct leaves are distinct inputs".into(),
        assumptions: vec!["reference index = first i with ends[i] > x else last (plain loop in the harness)".into(), "expected bits come from calling the selected real piece's own evaluate".into()],
        phases: vec![ph, sizes],
        extra: Default::default(),
        controls: vec![(
            "reference with >= instead of > must disagree with the subject on a breakpoint",
            Box::new(|| {
                // oracle only (never the subject): the reference index puts a breakpoint into the piece on its right,
                // and two different pieces of a probe function give different bits at the same argument
                let ends = [1.0, 2.0];
                let pw = probe_pw(&ends);
                let wrong = ends.iter().position(|&e| e >= 1.0).unwrap();
                if ref_index(&ends, 1.0) != 1 || wrong != 0 || bits_eq(pw.segments[1].evaluate(1.0), pw.segments[wrong].evaluate(1.0)) {
                    Err("comparison is not live".into())
                } else {
                    Ok(())
                }
            }),
        )],
    }
}
