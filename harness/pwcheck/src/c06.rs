//! C06 — linear() interpolates the knots and forces breakpoints to be non-decreasing.
use crate::common::*;
use exact::{dy, q, Q};
use serde_json::json;
use xplore::*;

fn xs_alpha() -> Vec<f64> {
    vec![0.0, exact::pred(1.0), 1.0, 1.0 + f64::EPSILON, 1.0 + 2.0 * f64::EPSILON, 2.0, -1.0, exact::succ(-1.0), 1e6, exact::succ(1e6), exact::succ(3.0), 3.0]
}
const YS: [f64; 3] = [-1.0, 0.0, 2.5];

fn tol(y0: f64, y1: f64, m: &Q, xa: f64, xb: f64, extra_x: f64) -> Q {
    // 2^6 * 2^-53 * (|y0| + |y1| + |m| (|xa| + |xb| + |x|))
    q(y0).abs().add(&q(y1).abs()).add(&m.abs().mul(&q(xa).abs().add(&q(xb).abs()).add(&q(extra_x).abs()))).mul(&q(2f64.powi(-47)))
}

fn check_list(xs: &[f64], ys: &[f64], cx: &mut Cx) -> Verdict {
    let n = xs.len();
    let knots: Vec<Knot> = xs.iter().zip(ys.iter()).map(|(&x, &y)| Knot { x, y }).collect();
    let detail = |obs: serde_json::Value| json!({"knots_x": fjs(&xs), "knots_y": fjs(&ys), "observation": obs});
    let r = guard(|| linear(&knots));
    cx.evals(1);
    let pw = match r {
        Ok(p) => p,
        Err(p) => return Err(Fail::new(format!("linear() panicked on >= 2 finite knots: {p}"), detail(json!(p)))),
    };
    // the same knots in a slice that sits at an address 8 (mod 16) (not a Vec's buffer): the result must not depend on it
    if n <= 64 {
        let placed = Placed::new(&knots);
        match guard(|| linear(placed.slice())) {
            Err(p) => return Err(Fail::new(format!("linear() panicked on a knot slice placed at an address 8 (mod 16): {p}"), detail(json!(p)))),
            Ok(p2) => {
                let same = p2.segments.len() == pw.segments.len() && p2.segments.iter().zip(&pw.segments).all(|(a, b)| a.end.to_bits() == b.end.to_bits() && all_bits_eq(&a.poly.0, &b.poly.0));
                if !same {
                    return Err(Fail::new("linear()'s result depends on where the knot slice sits in memory (address 8 mod 16 against a Vec's buffer)", detail(json!({"from_placed_slice_ends": fjs(&p2.segments.iter().map(|s| s.end).collect::<Vec<_>>())}))));
                }
            }
        }
    }
    // forced abscissae = running maximum
    let mut fx = vec![xs[0]];
    for i in 1..n {
        let prev: f64 = fx[i - 1];
        fx.push(if xs[i] > prev { xs[i] } else { prev });
    }
    let out_of_order = (1..n).any(|i| xs[i] < fx[i - 1]);
    let sub_eps = (1..n).any(|i| fx[i] - fx[i - 1] < f64::EPSILON);
    let strictly = (1..n).all(|i| xs[i] - xs[i - 1] >= f64::EPSILON);
    if out_of_order { cx.class(0); }
    if sub_eps { cx.class(1); }
    if strictly { cx.class(2); }
    if (1..n).any(|i| { let d = fx[i] - fx[i - 1]; d >= f64::EPSILON && d <= 2.0 * f64::EPSILON }) { cx.class(3); }
    if out_of_order || sub_eps { cx.nontrivial(); }
    if cx.sampling() {
        cx.sample(json!({"knots_x": fjs(&xs), "knots_y": ys}));
    }
    if pw.segments.len() != n - 1 {
        return Err(Fail::new("linear() does not return one segment per consecutive knot pair", detail(json!({"segments": pw.segments.len()}))));
    }
    let ends: Vec<f64> = pw.segments.iter().map(|s| s.end).collect();
    if let Some(c) = pw.segments.iter().flat_map(|s| s.poly.0.iter()).find(|c| !c.is_finite()) {
        return Err(Fail::new("linear() returned a non-finite coefficient for finite knots", detail(json!({"coefficient": fj(*c)}))));
    }
    for i in 0..n - 1 {
        if ends[i].to_bits() != fx[i + 1].to_bits() {
            return Err(Fail::new("segment ends are not the running maximum of the knot abscissae", detail(json!({"ends": fjs(&ends), "expected": fjs(&fx[1..])}))));
        }
        let c = pw.segments[i].poly.0;
        let val = |x: f64| dy(c[0]).add(&dy(c[1]).mul(&dy(x))).to_q();
        let dx = q(fx[i + 1]).sub(&q(fx[i]));
        let wide = !dx.lt(&q(f64::EPSILON));
        let m = if wide { q(ys[i + 1]).sub(&q(ys[i])).div(&dx) } else { Q::zero() };
        let t = tol(ys[i], ys[i + 1], &m, fx[i], fx[i + 1], 0.0);
        let e0 = val(fx[i]).sub(&q(ys[i])).abs();
        if !e0.le(&t) {
            return Err(Fail::new("segment does not pass through its (abscissa-forced) left knot", detail(json!({"segment": i, "coefficients": fjs(&c), "value_at_left~": val(fx[i]).to_f64(), "tolerance~": t.to_f64()}))));
        }
        if wide {
            let e1 = val(fx[i + 1]).sub(&q(ys[i + 1])).abs();
            if !t.is_zero() { cx.ratio(e1.to_f64() / t.to_f64()); }
            if !e1.le(&t) {
                return Err(Fail::new("segment at least machine-epsilon wide does not pass through its right knot", detail(json!({"segment": i, "coefficients": fjs(&c), "value_at_right~": val(fx[i + 1]).to_f64(), "tolerance~": t.to_f64()}))));
            }
        } else if c[1] != 0.0 || c[0] != ys[i] {
            return Err(Fail::new("segment narrower than machine epsilon is not the constant at its left ordinate", detail(json!({"segment": i, "coefficients": fjs(&c)}))));
        }
    }
    if strictly {
        // evaluated through the real Piecewise::evaluate: interpolant between knots, ordinate at knots, extrapolation outside
        let mut queries: Vec<f64> = if n <= 1100 {
            order_alphabet(&ends).into_iter().filter(|x| x.is_finite() && x.abs() <= 1e7).collect()
        } else {
            // huge lists: ~300 evenly spread ends with their one-ulp neighbours (the per-segment checks above cover every segment)
            ends.iter().step_by(n / 150 + 1).flat_map(|&e| [exact::pred(e), e, exact::succ(e)]).filter(|x| x.is_finite() && x.abs() <= 1e7).collect()
        };
        if n <= 1100 {
            queries.extend(fx.windows(2).map(|w| w[0] * 0.5 + w[1] * 0.5));
        } else {
            queries.extend(fx.windows(2).step_by(n / 150 + 1).map(|w| w[0] * 0.5 + w[1] * 0.5));
        }
        queries.push(fx[0]);
        queries.push(fx[0] - 1.0);
        for x in queries {
            let j = ref_index(&ends, x);
            let dx = q(fx[j + 1]).sub(&q(fx[j]));
            let m = q(ys[j + 1]).sub(&q(ys[j])).div(&dx);
            let want = q(ys[j]).add(&m.mul(&q(x).sub(&q(fx[j]))));
            let got = pw.evaluate(x);
            cx.evals(1);
            let t = tol(ys[j], ys[j + 1], &m, fx[j], fx[j + 1], x).mul_i(2);
            if !got.is_finite() || !q(got).sub(&want).abs().le(&t) {
                return Err(Fail::new("linear(knots) evaluated at x is not the straight line through the bracketing knots", detail(json!({"x": fj(x), "bracketing_segment": j, "got": fj(got), "exact~": want.to_f64(), "tolerance~": t.to_f64()}))));
            }
        }
        for k in (0..n).step_by(if n <= 1100 { 1 } else { n / 300 + 1 }) {
            let got = pw.evaluate(fx[k]);
            let j = if k == 0 { 0 } else { k - 1 };
            let jj = ref_index(&ends, fx[k]);
            let dx = q(fx[jj + 1]).sub(&q(fx[jj]));
            let m = q(ys[jj + 1]).sub(&q(ys[jj])).div(&dx);
            let t = tol(ys[j], ys[j + 1], &m, fx[jj], fx[jj + 1], 0.0).mul_i(2);
            if !q(got).sub(&q(ys[k])).abs().le(&t) {
                return Err(Fail::new("linear(knots) evaluated at a knot is not that knot's ordinate", detail(json!({"knot": k, "got": fj(got), "tolerance~": t.to_f64()}))));
            }
        }
    }
    Ok(())
}

pub fn check(thorough: bool, _seed: u64) -> Check {
    let xa = xs_alpha();
    let nx = xa.len();
    let maxn = if thorough { 5 } else { 4 };
    // unit = (n, first abscissa, second abscissa)
    let units = (maxn - 1) * nx * nx;
    let ph = Phase {
        name: "knot-lists",
        units,
        split: 2,
        body: Box::new(move |unit, cx| {
            let n = 2 + unit / (nx * nx);
            let mut xs = vec![xa[(unit / nx) % nx], xa[unit % nx]];
            for _ in 2..n {
                xs.push(*cx.pick(&xa));
            }
            let ys: Vec<f64> = (0..n).map(|_| *cx.pick(&YS)).collect();
            check_list(&xs, &ys, cx)
        }),
        classes: vec![("out_of_order_abscissa", true), ("sub_epsilon_step", true), ("strictly_increasing_with_gaps>=eps", true), ("step_of_exactly_eps_or_2eps", true)],
        bounds: json!({"knots": format!("every knot list of length 2..{maxn}: abscissae in {{0,pred(1),1,1+2^-52,1+2^-51,2,-1,succ(-1),1e6,succ(1e6),3,succ(3)}}^n x ordinates in {{-1,0,2.5}}^n"),
            "queries": "for strictly increasing lists: finite part of A(ends), interval midpoints, every knot", "oracle": "running maximum; exact rational line; tolerance 2^6*2^-53*(|y_i|+|y_i+1|+|m|(|X_i|+|X_i+1|+|x|))"}),
    };
    let sizes: Vec<usize> = [8usize, 9, 16, 17, 33, 65, 32768, 40000].into_iter().chain(if thorough { vec![10usize, 32, 64, 129, 257, 1025, 65537, 100001] } else { vec![] }).collect();
    let ns = sizes.len();
    let long = Phase {
        name: "long-knot-lists",
        units: ns,
        split: 0,
        body: Box::new(move |unit, cx| {
            let n = sizes[unit];
            let xp = cx.choose(7);
            let off = [0.0, -7.5, 1e6][cx.choose(3)];
            let xs: Vec<f64> = (0..n)
                .map(|i| {
                    let i_f = i as f64;
                    off + match xp {
                        0 => i_f,                                             // unit steps
                        1 => (i / 2) as f64,                                  // every abscissa repeated once
                        2 => if i % 3 == 2 { i_f - 2.5 } else { i_f },        // a step back every third knot
                        3 => 1e-3 * 1.5f64.powi((i % 40) as i32) + (i / 40) as f64 * 2e4, // geometric gaps
                        4 => 1.0 + i_f * f64::EPSILON,                        // steps of exactly machine epsilon (at offset 0)
                        5 => if i % 4 == 3 { 0.0 } else if i == n / 40 + 1 { n as f64 } else { i_f * 0.25 }, // periodic return to the start, and one early abscissa beyond all later ones
                        _ => i_f * i_f * 1e-3,                                // growing gaps
                    }
                })
                .collect();
            let yp = cx.choose(3);
            let ys: Vec<f64> = (0..n).map(|i| match yp { 0 => i as f64 * 0.5 - 3.0, 1 => if i % 2 == 0 { 2.5 } else { -1.0 }, _ => (((i * 7919) % 13) as f64) - 6.0 }).collect();
            check_list(&xs, &ys, cx)
        }),
        classes: vec![("out_of_order_abscissa", false), ("sub_epsilon_step", false), ("strictly_increasing_with_gaps>=eps", false), ("step_of_exactly_eps_or_2eps", false)],
        bounds: json!({"knots": "n = 8,9,16,17,33,65,32768,40000 (also 10,32,64,129,257,1025,65537,100001 thorough) x 7 abscissa patterns (unit steps, repeated, periodic back steps, geometric, epsilon steps, periodic return to start, growing gaps) x offsets {0,-7.5,1e6} x 3 ordinate patterns"}),
    };
    // forced widths on both sides of machine epsilon, to the last bit (the rule is "narrower than f64::EPSILON", not a
    // rounded copy of it): abscissae near 0 and inside (-1,1), where such widths exist; the subtraction is exact there
    let around_eps = Phase {
        name: "widths-around-machine-epsilon",
        units: 6,
        split: 0,
        body: Box::new(move |unit, cx| {
            let a = [0.0, 1e-3, -1e-3, 1e-10, 0.0009765625, -3e-16][unit];
            let e = f64::EPSILON;
            let gaps = [exact::pred(e), exact::pred(exact::pred(e)), 2.2203e-16, 2.22e-16, 2.2204e-16, e * 0.999, e, exact::succ(e), 0.75 * e, 1.5 * e, 0.5 * e, 2.21e-16, 1.0000001 * e];
            let g = gaps[cx.choose(gaps.len())];
            let b = a + g;
            let xs: Vec<f64> = match cx.choose(4) {
                0 => vec![a, b],
                1 => vec![a, b, 1.0],
                2 => vec![-1.0, a, b],
                _ => vec![-1.0, a, b, b + g, 2.0],
            };
            let ys: Vec<f64> = (0..xs.len()).map(|_| *cx.pick(&YS)).collect();
            check_list(&xs, &ys, cx)
        }),
        classes: vec![("out_of_order_abscissa", false), ("sub_epsilon_step", true), ("strictly_increasing_with_gaps>=eps", true), ("step_of_exactly_eps_or_2eps", true)],
        bounds: json!({"knots": "lists [a,a+g], [a,a+g,1], [-1,a,a+g], [-1,a,a+g,a+2g,2] with a in {0,1e-3,-1e-3,1e-10,2^-10,-3e-16} and g in {pred(EPS),pred(pred(EPS)),2.2203e-16,2.22e-16,2.2204e-16,0.999 EPS,EPS,succ(EPS),0.75 EPS,1.5 EPS,EPS/2,2.21e-16,1.0000001 EPS} x ordinates in {-1,0,2.5}^n"}),
    };
    Check {
        id: "C06",
        rule: "choice tree: (length, first two abscissae) unit x remaining abscissae x ordinates; each leaf is one knot list run through the real linear() (and Piecewise::evaluate of its result); non-trivial = list with an out-of-order or sub-epsilon step".into(),
        assumptions: vec![],
        phases: vec![ph, long, around_eps],
        extra: Default::default(),
        controls: vec![],
    }
}
