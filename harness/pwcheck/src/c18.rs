//! C18 — serde round trips (JSON text, CBOR binary) preserve every number bit for bit.
//! (The borsh configuration lives in the separate binary pwborsh, built with the subject's
//! optional feature on; bin/check merges its result.)
use crate::common::*;
use serde::{de::DeserializeOwned, Serialize};
use serde_json::{json, Value};
use std::sync::Arc;
use xplore::*;

pub fn number_alphabet() -> Vec<f64> {
    vec![
        0.0, -0.0, 5e-324, -2.2250738585072014e-308, 1.0, exact::succ(1.0), 0.1, -0.3333333333333333, 1e300, f64::MAX, -f64::MAX,
        // doubles that are exactly representable as f32 / f16 (binary formats may store them short) with long decimal expansions
        // whole numbers at the boundaries of the integer types (writers with an integer fast path)
        255.0, 256.0, -128.0, -129.0, 65535.0, 65536.0, -32769.0, 4294967295.0, 4294967296.0, -2147483648.0, -2147483649.0, -3e9, -4294967295.0,
        9007199254740992.0, -9223372036854775808.0, 18446744073709551616.0,
        0.1f32 as f64, 1073741824.0, 7.888609052210118e-31, 65504.0, 5.960464477539063e-8, f32::MAX as f64, 1.401298464324817e-45, 16777216.0, -0.333251953125,
        f64::INFINITY, f64::NEG_INFINITY,
    ]
}
const CUBE: [f64; 3] = [-0.0, 5e-324, f64::MAX];
const BG1: [f64; 4] = [1.5, -2.25, 0.1, 1e-7];
const BG2: [f64; 4] = [-0.0, f64::MAX, 5e-324, -1e300];

type Run = Box<dyn Fn(&[f64], usize) -> Result<(), (String, Value)> + Send + Sync>;
struct Case {
    ty: String,
    n: usize,
    run: Run,
}
const FORMATS: [&str; 7] = ["json:to_string/from_str", "json:to_vec/from_slice", "json:to_value/from_value", "cbor:to_vec/from_slice",
    "cbor packed (struct members by position):to_vec_packed/from_slice", "json:to_string/deserialize_in_place into another value", "cbor:to_vec/deserialize_in_place into another value"];
fn is_binary(fmt: usize) -> bool {
    matches!(fmt, 3 | 4 | 6)
}

fn trip<T: Serialize + DeserializeOwned>(v: &T, fmt: usize) -> Result<T, String> {
    match fmt {
        0 => {
            let s = serde_json::to_string(v).map_err(|e| format!("serialize: {e}"))?;
            serde_json::from_str(&s).map_err(|e| format!("deserialize {s}: {e}"))
        }
        1 => {
            let s = serde_json::to_vec_pretty(v).map_err(|e| format!("serialize: {e}"))?;
            serde_json::from_slice(&s).map_err(|e| format!("deserialize: {e}"))
        }
        2 => {
            let s = serde_json::to_value(v).map_err(|e| format!("serialize: {e}"))?;
            serde_json::from_value(s).map_err(|e| format!("deserialize: {e}"))
        }
        3 => {
            let s = serde_cbor::to_vec(v).map_err(|e| format!("serialize: {e}"))?;
            serde_cbor::from_slice(&s).map_err(|e| format!("deserialize: {e}"))
        }
        4 => {
            let s = serde_cbor::ser::to_vec_packed(v).map_err(|e| format!("serialize: {e}"))?;
            serde_cbor::from_slice(&s).map_err(|e| format!("deserialize: {e}"))
        }
        // the in-place formats without a place to read into: plain reads
        5 => trip(v, 0),
        _ => trip(v, 3),
    }
}
/// read into an existing value (`place`, different contents, for piecewise functions more segments) instead of creating one
fn trip_in<T: Serialize + DeserializeOwned>(v: &T, fmt: usize, mut place: T) -> Result<T, String> {
    use serde::Deserialize;
    match fmt {
        5 => {
            let s = serde_json::to_string(v).map_err(|e| format!("serialize: {e}"))?;
            let mut de = serde_json::Deserializer::from_str(&s);
            T::deserialize_in_place(&mut de, &mut place).map_err(|e| format!("deserialize_in_place {s}: {e}"))?;
            de.end().map_err(|e| format!("trailing input: {e}"))?;
            Ok(place)
        }
        6 => {
            let s = serde_cbor::to_vec(v).map_err(|e| format!("serialize: {e}"))?;
            let mut de = serde_cbor::Deserializer::from_slice(&s);
            T::deserialize_in_place(&mut de, &mut place).map_err(|e| format!("deserialize_in_place: {e}"))?;
            de.end().map_err(|e| format!("trailing input: {e}"))?;
            Ok(place)
        }
        _ => trip(v, fmt),
    }
}
/// other contents of the same shape for the place that is read into
fn other_nums(nums: &[f64]) -> Vec<f64> {
    nums.iter().enumerate().map(|(i, _)| 7.5 - i as f64 * 0.25).collect()
}

fn finish<T: PartialEq>(orig: &T, back: Result<Result<T, String>, String>, on: &[f64], bn: impl Fn(&T) -> Vec<f64>, fmt: usize) -> Result<(), (String, Value)> {
    let f = FORMATS[fmt];
    match back {
        Err(p) => Err((format!("{f}: round trip panicked: {p}"), json!(p))),
        Ok(Err(e)) => Err((format!("{f}: round trip failed: {e}"), json!(e))),
        Ok(Ok(b)) => {
            let got = bn(&b);
            if !all_bits_eq(&got, on) {
                return Err((format!("{f}: a number changed in the round trip"), json!({"decoded": fjs(&got)})));
            }
            if &b != orig {
                return Err((format!("{f}: decoded value is not == the original"), json!({"decoded": fjs(&got)})));
            }
            Ok(())
        }
    }
}

fn form_case<T>(ty: String) -> Case
where
    T: Nums + Serialize + DeserializeOwned + PartialEq,
{
    Case { ty, n: T::N, run: Box::new(|nums, fmt| { let v = T::from_nums(nums); let place = T::from_nums(&other_nums(nums)); let r = guard(|| trip_in(&v, fmt, place)); finish(&v, r, nums, |b| b.nums(), fmt) }) }
}
fn pw_case<T>(ty: String, pieces: usize) -> Case
where
    T: Nums + Serialize + DeserializeOwned + PartialEq,
{
    Case {
        ty: format!("Piecewise<{ty}> with {pieces} segments"),
        n: pieces * (T::N + 1),
        run: Box::new(|nums, fmt| {
            let v = pw_from_nums::<T>(nums);
            // the place read into (in-place formats): a function with three more segments and other numbers
            let mut longer = other_nums(nums);
            longer.extend((0..3 * (T::N + 1)).map(|i| -1.0 - i as f64));
            let place = pw_from_nums::<T>(&longer);
            let r = guard(|| trip_in(&v, fmt, place));
            finish(&v, r, nums, |b| pw_nums(b), fmt)?;
            if fmt >= 5 {
                // and a place with fewer segments (one, or none)
                let place = pw_from_nums::<T>(&other_nums(&nums[..(T::N + 1).min(nums.len())]));
                let r = guard(|| trip_in(&v, fmt, place));
                finish(&v, r, nums, |b| pw_nums(b), fmt).map_err(|(what, d)| (format!("{what} (read into a shorter function)"), d))?;
            }
            // the same value with allocation history that == cannot see: spare capacity from reserve / push growth
            let mut w = pw_from_nums::<T>(nums);
            w.segments.reserve(7);
            let r = guard(|| trip(&w, fmt));
            finish(&w, r, nums, |b| pw_nums(b), fmt).map_err(|(what, d)| (format!("{what} (segments vector with spare capacity)"), d))?;
            let mut g = Piecewise { segments: Vec::new() };
            for s in pw_from_nums::<T>(nums).segments {
                g.segments.push(s);
            }
            let r = guard(|| trip(&g, fmt));
            finish(&g, r, nums, |b| pw_nums(b), fmt).map_err(|(what, d)| (format!("{what} (segments vector grown by push)"), d))
        }),
    }
}

fn cases() -> Vec<Case> {
    let mut v = vec![form_case::<Knot>("Knot".into())];
    macro_rules! poly { ($($t:ident),*) => {$(
        v.push(form_case::<$t>(stringify!($t).into()));
        v.push(form_case::<Log<$t>>(format!("Log<{}>", stringify!($t))));
        v.push(form_case::<IntOfLog<$t>>(format!("IntOfLog<{}>", stringify!($t))));
    )*}; }
    poly!(Poly0, Poly1, Poly2, Poly3, Poly4, Poly5, Poly6, Poly7, Poly8);
    v.push(form_case::<IntOfLogPoly4>("IntOfLogPoly4".into()));
    macro_rules! seg { ($($t:ty),*) => {$(
        v.push(form_case::<Segment<$t>>(format!("Segment<{}>", type_name::<$t>())));
        for p in 0..=4 { v.push(pw_case::<$t>(type_name::<$t>(), p)); }
    )*}; }
    seg!(Poly0, Poly3, Poly8, Log<Poly2>, IntOfLog<Poly1>, IntOfLogPoly4);
    v
}

pub fn check(thorough: bool, _seed: u64) -> Check {
    let cs = Arc::new(cases());
    let names: Vec<String> = cs.iter().map(|c| c.ty.clone()).collect();
    let n = cs.len();
    let f = Arc::new(number_alphabet());
    let cs2 = cs.clone();
    let ph = Phase {
        name: "serde-round-trips",
        units: n * FORMATS.len(),
        split: 2,
        body: Box::new(move |unit, cx| {
            let c = &cs2[unit / FORMATS.len()];
            let fmt = unit % FORMATS.len();
            let binary = is_binary(fmt);
            let alpha: &[f64] = if binary { &f[..] } else { &f[..f.len() - 2] }; // text formats: finite contents only
            let nums: Vec<f64> = if c.n == 0 {
                vec![]
            } else if c.n <= 3 {
                (0..c.n).map(|_| *cx.pick(alpha)).collect()
            } else {
                match cx.choose(3) {
                    2 => {
                        // every pair of positions holding an opposite / special pair (values that only go wrong together:
                        // +inf with -inf, MAX with -MAX, -0.0 with +0.0, a subnormal with MAX)
                        let i = cx.choose(c.n);
                        let j = (i + 1 + cx.choose(c.n - 1)) % c.n;
                        let pairs: &[(f64, f64)] = if binary { &[(f64::INFINITY, f64::NEG_INFINITY), (f64::MAX, -f64::MAX), (-0.0, 0.0), (5e-324, f64::MAX), (f64::INFINITY, f64::INFINITY)] } else { &[(f64::MAX, -f64::MAX), (-0.0, 0.0), (5e-324, f64::MAX)] };
                        let (a, b) = pairs[cx.choose(pairs.len())];
                        (0..c.n).map(|k| if k == i { a } else if k == j { b } else { BG1[k % 4] * (1.0 + (k / 4) as f64) }).collect()
                    }
                    0 => {
                        // every position swept through the alphabet against two backgrounds
                        let bg = if cx.flag() { &BG2 } else { &BG1 };
                        let pos = cx.choose(c.n);
                        let val = *cx.pick(alpha);
                        (0..c.n).map(|i| if i == pos { val } else if bg[i % 4].abs() < 1e100 { bg[i % 4] * (1.0 + (i / 4) as f64) } else { bg[i % 4] }).collect()
                    }
                    _ => {
                        let cap = if thorough { 10 } else { 8 };
                        (0..c.n).map(|i| if i < cap { CUBE[cx.choose(3)] } else { BG1[i % 4] }).collect()
                    }
                }
            };
            if nums.iter().any(|v| *v == 0.0 || v.is_subnormal() || v.abs() == f64::MAX || v.is_infinite()) {
                cx.nontrivial();
            }
            cx.class(fmt);
            cx.evals(1);
            if cx.sampling() {
                cx.sample(json!({"type": c.ty, "format": FORMATS[fmt], "numbers": fjs(&nums)}));
            }
            (c.run)(&nums, fmt).map_err(|(what, d)| Fail::new(format!("{}: {}", c.ty, what), json!({"numbers": fjs(&nums), "observation": d})))
        }),
        classes: FORMATS.iter().map(|f| (*f, true)).collect(),
        bounds: json!({"types": "every serializable type (list under serde_types); Segment/Piecewise over Poly0, Poly3, Poly8, Log<Poly2>, IntOfLog<Poly1>, IntOfLogPoly4 with 0..4 segments",
            "numbers": "alphabet {whole numbers at the integer-type boundaries (255,256,-128,-129,65535,65536,-32769,2^32-1,2^32,-2^31,-2^31-1,-3e9,-(2^32-1),2^53,-2^63,2^64), 0.0,-0.0,5e-324,-2^-1022,1,succ(1),0.1,-1/3,1e300,MAX,-MAX, and the f32/f16-exact doubles 0.1f32,2^30,2^-100,65504,2^-24,f32::MAX,f32 min subnormal,2^24,-0.333251953125} (+-inf added for CBOR): full product for <=3 numbers; otherwise every position swept through the alphabet against two backgrounds, plus the cube over {-0.0,5e-324,MAX} on the first 8 (10 thorough) positions, plus every ordered pair of positions holding (+inf,-inf), (MAX,-MAX), (-0.0,+0.0), (5e-324,MAX), (+inf,+inf) (infinite pairs for the binary formats)",
            "formats": FORMATS}),
    };
    // many segments (size thresholds of readers that pre-allocate / read in blocks)
    let sizes: Vec<usize> = if thorough { vec![33, 100, 1000, 4095, 4096, 4097, 13107, 13108, 20000, 26214, 26215, 32768, 65535, 65536, 65537, 70000, 131073] } else { vec![33, 100, 1000, 4097, 13107, 13108, 26215, 65536, 65537, 70000] };
    let nsz = sizes.len();
    let many = Phase {
        name: "many-segments",
        units: nsz * 4,
        split: 0,
        body: Box::new(move |unit, cx| {
            let pieces = sizes[unit / 4];
            let fmt = cx.choose(FORMATS.len());
            fn nums_for(pieces: usize, per: usize) -> Vec<f64> {
                let mut v = Vec::with_capacity(pieces * per);
                for i in 0..pieces {
                    v.push(i as f64 * 0.5 - 3.0);
                    for k in 1..per {
                        v.push(BG1[(i + k) % 4] * (1.0 + (k as f64)) + (i % 97) as f64);
                    }
                }
                v
            }
            cx.nontrivial();
            cx.evals(1);
            let (ty, r) = match unit % 4 {
                0 => ("Piecewise<Poly0>", { let nums = nums_for(pieces, 2); let v = pw_from_nums::<Poly0>(&nums); let place = pw_from_nums::<Poly0>(&nums_for(pieces + 5, 2)); let r = guard(|| trip_in(&v, fmt, place)); finish(&v, r, &nums, |b| pw_nums(b), fmt) }),
                1 => ("Piecewise<Poly3>", { let nums = nums_for(pieces, 5); let v = pw_from_nums::<Poly3>(&nums); let place = pw_from_nums::<Poly3>(&nums_for(pieces + 5, 5)); let r = guard(|| trip_in(&v, fmt, place)); finish(&v, r, &nums, |b| pw_nums(b), fmt) }),
                2 => ("Piecewise<Poly8>", { let nums = nums_for(pieces, 10); let v = pw_from_nums::<Poly8>(&nums); let place = pw_from_nums::<Poly8>(&nums_for(pieces / 2, 10)); let r = guard(|| trip_in(&v, fmt, place)); finish(&v, r, &nums, |b| pw_nums(b), fmt) }),
                _ => ("Piecewise<IntOfLogPoly4>", { let nums = nums_for(pieces, 7); let v = pw_from_nums::<IntOfLogPoly4>(&nums); let place = pw_from_nums::<IntOfLogPoly4>(&nums_for(pieces + 1, 7)); let r = guard(|| trip_in(&v, fmt, place)); finish(&v, r, &nums, |b| pw_nums(b), fmt) }),
            };
            if cx.sampling() {
                cx.sample(json!({"type": ty, "segments": pieces, "format": FORMATS[fmt]}));
            }
            r.map_err(|(what, d)| {
                let d = if d.to_string().len() > 2000 { json!("(decoded value omitted: too long)") } else { d };
                Fail::new(format!("{ty} with {pieces} segments: {what}"), json!({"segments": pieces, "format": FORMATS[fmt], "observation": d}))
            })
        }),
        classes: vec![],
        bounds: json!({"types": "Piecewise over Poly0, Poly3, Poly8, IntOfLogPoly4", "segments": format!("{:?}", if thorough { "33,100,1000,4095..4097,13107,13108,20000,26214,26215,32768,65535..65537,70000,131073" } else { "33,100,1000,4097,13107,13108,26215,65536,65537,70000" }), "formats": FORMATS}),
    };
    // regularly spaced breakpoints (a compact "grid" encoding would have to reproduce every end bit for bit): ends built by a
    // running sum and by multiplication, dyadic and non-dyadic steps
    let grids = Phase {
        name: "regular-grids",
        units: 2 * FORMATS.len(),
        split: 1,
        body: Box::new(move |unit, cx| {
            let fmt = unit % FORMATS.len();
            let n = [2usize, 7, 8, 9, 16, 33, 100, 257][cx.choose(8)];
            let h = [0.1, 0.3, 0.7, 0.01, 0.25, 1e-3, 3.0][cx.choose(7)];
            let start = [0.0, 0.1, -0.4, 1e3][cx.choose(4)];
            let ends: Vec<f64> = if cx.flag() {
                let mut x = start;
                (0..n).map(|_| { x += h; x }).collect()
            } else {
                (0..n).map(|i| start + h * (i + 1) as f64).collect()
            };
            cx.nontrivial();
            cx.evals(1);
            if cx.sampling() {
                cx.sample(json!({"segments": n, "step": h, "start": start, "format": FORMATS[fmt]}));
            }
            let r = if unit / FORMATS.len() == 0 {
                let nums: Vec<f64> = ends.iter().flat_map(|&e| [e, 1.5 + e]).collect();
                let v = pw_from_nums::<Poly0>(&nums);
                let place = pw_from_nums::<Poly0>(&other_nums(&nums));
                let r = guard(|| trip_in(&v, fmt, place));
                finish(&v, r, &nums, |b| pw_nums(b), fmt)
            } else {
                let nums: Vec<f64> = ends.iter().flat_map(|&e| [e, 1.5, -2.25 * e, 0.125, 3.0]).collect();
                let v = pw_from_nums::<Poly3>(&nums);
                let place = pw_from_nums::<Poly3>(&other_nums(&nums));
                let r = guard(|| trip_in(&v, fmt, place));
                finish(&v, r, &nums, |b| pw_nums(b), fmt)
            };
            r.map_err(|(what, d)| Fail::new(format!("Piecewise with {n} regularly spaced ends: {what}"), json!({"ends": fjs(&ends), "format": FORMATS[fmt], "observation": if d.to_string().len() > 3000 { json!("(omitted)") } else { d }})))
        }),
        classes: vec![],
        bounds: json!({"types": "Piecewise<Poly0>, Piecewise<Poly3>", "segments": "2,7,8,9,16,33,100,257", "ends": "start + running sum of h, and start + h*i; h in {0.1,0.3,0.7,0.01,0.25,1e-3,3}; start in {0,0.1,-0.4,1e3}", "formats": FORMATS}),
    };
    // every number of segments 5..300 (520 thorough): count headers, escape bytes of compact length prefixes, block boundaries
    let every = Phase {
        name: "every-number-of-segments",
        units: 2 * FORMATS.len(),
        split: 0,
        body: Box::new(move |unit, cx| {
            let fmt = unit % FORMATS.len();
            let n = 5 + cx.choose(if thorough { 516 } else { 296 });
            cx.nontrivial();
            cx.evals(1);
            if cx.sampling() {
                cx.sample(json!({"segments": n, "format": FORMATS[fmt]}));
            }
            let r = if unit / FORMATS.len() == 0 {
                let nums: Vec<f64> = (0..n).flat_map(|i| [i as f64 * 0.5 - 3.0, 1.5 + (i % 97) as f64]).collect();
                let v = pw_from_nums::<Poly0>(&nums);
                let place = pw_from_nums::<Poly0>(&other_nums(&nums[..nums.len() - 2]));
                let r = guard(|| trip_in(&v, fmt, place));
                finish(&v, r, &nums, |b| pw_nums(b), fmt)
            } else {
                let nums: Vec<f64> = (0..n).flat_map(|i| [i as f64 * 0.5 - 3.0, 1.5, -2.25 + (i % 13) as f64, 0.125, 3.0]).collect();
                let v = pw_from_nums::<Poly3>(&nums);
                let place = pw_from_nums::<Poly3>(&other_nums(&nums));
                let r = guard(|| trip_in(&v, fmt, place));
                finish(&v, r, &nums, |b| pw_nums(b), fmt)
            };
            r.map_err(|(what, d)| Fail::new(format!("Piecewise with {n} segments: {what}"), json!({"segments": n, "format": FORMATS[fmt], "observation": if d.to_string().len() > 3000 { json!("(omitted)") } else { d }})))
        }),
        classes: vec![],
        bounds: json!({"types": "Piecewise<Poly0>, Piecewise<Poly3>", "segments": if thorough {"every n from 5 to 520"} else {"every n from 5 to 300"}, "formats": FORMATS}),
    };
    // a good document read after failed reads on the same thread: five reads of a truncated CBOR / JSON document of 2^20 segments
    // (every one fails), then ordinary round trips - an error path must not leave anything behind (budgets, scratch state)
    let after_failures = Phase {
        name: "round-trips-after-failed-reads",
        units: 2,
        split: 0,
        body: Box::new(move |unit, cx| {
            cx.nontrivial();
            cx.evals(8);
            if cx.sampling() {
                cx.sample(json!({"failed_reads": 5, "segments_in_the_truncated_document": 1 << 20, "format": if unit == 0 { "cbor" } else { "json" }}));
            }
            let big: Piecewise<Poly0> = Piecewise { segments: (0..(1usize << 20)).map(|i| Segment { end: i as f64, poly: Poly0(0.5) }).collect() };
            let failed = guard(|| {
                let mut n = 0;
                if unit == 0 {
                    let mut bytes = serde_cbor::to_vec(&big).unwrap_or_default();
                    bytes.truncate(bytes.len() - 3);
                    for _ in 0..5 {
                        n += serde_cbor::from_slice::<Piecewise<Poly0>>(&bytes).is_err() as usize;
                    }
                } else {
                    let mut txt = serde_json::to_string(&big).unwrap_or_default();
                    txt.truncate(txt.len() - 3);
                    for _ in 0..5 {
                        n += serde_json::from_str::<Piecewise<Poly0>>(&txt).is_err() as usize;
                    }
                }
                n
            });
            drop(big);
            if failed != Ok(5) {
                return Err(Fail::new("reading a truncated document did not fail cleanly", json!({"failed_reads": format!("{:?}", failed)})));
            }
            let nums: Vec<f64> = vec![0.5, 1.5, -2.25, 2.0, 3.0, 0.125];
            for fmt in 0..FORMATS.len() {
                let v = pw_from_nums::<Poly1>(&nums);
                let place = pw_from_nums::<Poly1>(&other_nums(&nums));
                let r = guard(|| trip_in(&v, fmt, place));
                finish(&v, r, &nums, |b| pw_nums(b), fmt).map_err(|(what, d)| Fail::new(format!("after five failed reads of a truncated document on the same thread: {what}"), json!({"format": FORMATS[fmt], "observation": d})))?;
            }
            Ok(())
        }),
        classes: vec![],
        bounds: json!({"history": "five failed reads of a truncated document of 2^20 Poly0 segments (CBOR resp. JSON), then a 2-segment Poly1 round trip in every format, all on one thread"}),
    };
    let mut extra = serde_json::Map::new();
    extra.insert("serde_types".into(), json!(names));
    Check {
        id: "C18",
        rule: "choice tree: (type, format) unit x number contents; each leaf serializes one real value and deserializes it again; non-trivial = contents with a zero, subnormal, extreme or infinite number".into(),
        assumptions: vec!["serde_json (feature float_roundtrip), serde_cbor and borsh are the environment the property is stated against".into()],
        phases: vec![ph, many, grids, every, after_failures],
        extra,
        controls: vec![("bit comparison distinguishes -0.0 from 0.0", Box::new(|| if all_bits_eq(&[0.0], &[-0.0]) { Err("not live".into()) } else { Ok(()) }))],
    }
}
