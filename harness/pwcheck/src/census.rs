//! C16 (c): panic census over the public operations on well-formed finite input.
use xplore::*;
pub fn phases(_thorough: bool, _seed: u64) -> Vec<Phase> {
    vec![]
}
