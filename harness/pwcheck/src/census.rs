//! C16 (c): panic census — every public operation executed under catch_unwind on well-formed
//! finite input drawn from extreme-value alphabets; any panic is a violation. The documented
//! rejections are executed too and only reported.
use crate::common::*;
use approx::{AbsDiffEq, RelativeEq};
use serde_json::json;
use std::sync::Arc;
use xplore::*;

const EXT: [f64; 9] = [0.0, -0.0, 1.0, -1.0, 5e-324, -2.2250738585072014e-308, 1e300, f64::MAX, -f64::MAX];
const ARGS: [f64; 10] = [0.0, -1.0, 0.5, 5e-324, 1e300, f64::MAX, -f64::MAX, f64::INFINITY, f64::NEG_INFINITY, f64::NAN];

fn np<T>(what: &str, input: serde_json::Value, f: impl FnOnce() -> T) -> Verdict {
    match guard(f) {
        Ok(_) => Ok(()),
        Err(p) => Err(Fail::new(format!("{what} panicked on well-formed finite input: {p}"), json!({"operation": what, "input": input, "panic": p}))),
    }
}

fn form_ops<T>(c: &[f64], s: f64, x: f64) -> Verdict
where
    T: Nums + Evaluate + HasDerivative + Translate + Copy + std::ops::Mul<f64, Output = T> + std::ops::Neg<Output = T> + std::ops::Add<Output = T> + std::ops::MulAssign<f64> + AbsDiffEq<Epsilon = f64> + RelativeEq + PartialEq,
    <T as HasDerivative>::DerivativeOf: Evaluate,
    Log<T>: HasIntegral,
    <Log<T> as HasIntegral>::IntegralOf: Evaluate,
{
    np(T::NAME, json!({"coefficients": fjs(c), "scalar": fj(s), "argument": fj(x)}), || {
        let p = T::from_nums(c);
        let mut acc = p.evaluate(x) + p.derivative().evaluate(x);
        let mut t = p;
        t.translate(s);
        t *= s;
        let u = (p * s) + (-t);
        acc += u.evaluate(x);
        let l = Log(p);
        acc += l.evaluate(x) + l.indefinite().evaluate(x) + l.integral(Knot { x: 1.5, y: s }).evaluate(x);
        let _ = p.abs_diff_eq(&u, s.abs()) | p.relative_eq(&u, 1e-9, 1e-9) | (p == u);
        acc
    })
}
fn int_ops<T>(c: &[f64], s: f64, x: f64) -> Verdict
where
    T: Nums + HasIntegral + Copy,
    T::IntegralOf: Evaluate + Translate,
{
    np("HasIntegral", json!({"coefficients": fjs(c), "knot_y": fj(s), "argument": fj(x)}), || {
        let p = T::from_nums(c);
        let seg = Segment { end: x, poly: p };
        p.indefinite().evaluate(x) + p.integral(Knot { x, y: s }).evaluate(x) + seg.integral(Knot { x: s, y: x }).evaluate(x)
    })
}

pub fn phases(thorough: bool, _seed: u64) -> Vec<Phase> {
    let mut v = vec![];
    // ---- forms
    v.push(Phase {
        name: "census-forms",
        units: 9,
        split: 1,
        body: Box::new(move |unit, cx| {
            let n = unit + 1;
            let lane = cx.choose(n);
            let val = *cx.pick(&EXT);
            let bg = *cx.pick(&[1.0, f64::MAX, 5e-324]);
            let c: Vec<f64> = (0..n).map(|i| if i == lane { val } else { bg }).collect();
            let s = *cx.pick(&EXT);
            let x = *cx.pick(&ARGS);
            cx.nontrivial();
            cx.evals(12);
            if cx.sampling() {
                cx.sample(json!({"degree": unit, "coefficients": fjs(&c), "scalar": fj(s), "argument": fj(x)}));
            }
            by_degree!(unit, form_ops(&c, s, x))?;
            if unit <= 7 {
                by_degree7!(unit, int_ops(&c, s, x))?;
            }
            let q4 = IntOfLogPoly4 { k: c[0], coeffs: [val, bg, s, c[n - 1]], u: bg };
            np("IntOfLogPoly4", json!({"numbers": fjs(&q4.nums()), "argument": fj(x)}), || {
                let r = (&q4 + &q4) - (q4 * s) + (-q4);
                let mut t = r;
                t.translate(x);
                (&t - &q4).evaluate(x) + q4.evaluate(x)
            })?;
            np("PolyN", json!({"coefficients": fjs(&c), "argument": fj(x)}), || {
                let mut p = PolyN(c.clone());
                p.translate(s);
                let e = PolyN(vec![]);
                p.evaluate(x) + e.evaluate(x) + (p.abs_diff_eq(&e, 1.0) as u8 as f64)
            })
        }),
        classes: vec![],
        bounds: json!({"operations": "evaluate, derivative, translate, *, *=, -, +, approx, Log evaluate/indefinite/integral, HasIntegral (degree <= 7), Segment::integral, IntOfLogPoly4 operators, PolyN",
            "inputs": "each coefficient swept through {0,-0.0,+-1,5e-324,-2^-1022,1e300,+-MAX} against backgrounds {1,MAX,5e-324}; scalars from the same set; arguments incl. +-inf and NaN"}),
    });
    // ---- constructions
    let xs_sorted = [-f64::MAX, -1e300, -1.0, 0.0, 5e-324, 1.0, 1e300, f64::MAX];
    let subs: Vec<Vec<f64>> = (3..=if thorough { 6 } else { 5 }).flat_map(|k| crate::spline::subsets(8, k)).map(|s| s.iter().map(|&i| xs_sorted[i]).collect()).collect();
    let subs = Arc::new(subs);
    let ns = subs.len();
    v.push(Phase {
        name: "census-constructions",
        units: ns,
        split: 0,
        body: Box::new(move |unit, cx| {
            let xs = &subs[unit];
            let ys: Vec<f64> = xs.iter().map(|_| *cx.pick(&[0.0, -0.0, 1e300, -f64::MAX, 5e-324])).collect();
            let knots: Vec<Knot> = xs.iter().zip(&ys).map(|(&x, &y)| Knot::new(x, y)).collect();
            cx.nontrivial();
            cx.evals(4);
            if cx.sampling() {
                cx.sample(json!({"knots_x": fjs(xs), "knots_y": fjs(&ys)}));
            }
            np("constrained_spline / linear", json!({"knots_x": fjs(xs), "knots_y": fjs(&ys)}), || {
                let s = constrained_spline(&knots);
                let l = linear(&knots);
                let mut rev = knots.clone();
                rev.reverse();
                let l2 = linear(&rev);
                let l3 = linear(&knots[..2]);
                let mut acc = 0.0;
                for k in &knots {
                    acc += s.evaluate(k.x) + l.evaluate(k.x) + l2.evaluate(k.y) + l3.evaluate(k.x) + s.derivative().evaluate(k.x) + l.integral(*k).evaluate(k.x);
                }
                acc
            })
        }),
        classes: vec![],
        bounds: json!({"operations": "constrained_spline (>=3 strictly increasing knots), linear (in order, reversed, 2 knots), evaluate / derivative / integral of the results",
            "inputs": "every increasing subset of size 3..5 (6 thorough) of {-MAX,-1e300,-1,0,5e-324,1,1e300,MAX} x ordinates in {0,-0.0,1e300,-MAX,5e-324}"}),
    });
    v.push(Phase {
        name: "census-constructions-every-size",
        units: if thorough { 600 } else { 300 },
        split: 0,
        body: Box::new(move |unit, cx| {
            let n = unit + 2;
            let pat = cx.choose(3);
            let knots: Vec<Knot> = (0..n).map(|i| Knot::new(i as f64 * 0.5 - 3.0, match pat { 0 => (i * i) as f64, 1 => if i % 2 == 0 { 1.0 } else { -1.0 }, _ => ((i * 7919) % 13) as f64 })).collect();
            cx.nontrivial();
            cx.evals(3);
            if cx.sampling() {
                cx.sample(json!({"knots": n, "pattern": pat}));
            }
            np("constrained_spline / linear", json!({"knots": n, "x": "i/2-3", "y_pattern": pat}), || {
                let l = linear(&knots);
                let mut acc = l.evaluate(0.25) + l.integral(knots[0]).evaluate(1.0);
                if n >= 3 {
                    let s = constrained_spline(&knots);
                    acc += s.evaluate(0.25) + s.derivative().evaluate(1.0) + (&s.integral(knots[0])).evaluate(2.0);
                    let mut ev = PiecewiseEvaluator::new(&s.segments);
                    acc += ev.evaluate(1e9) + ev.evaluate(-1e9) + ev.evaluate(f64::NAN) + s.evaluate_v(vec![-1.0, 0.0, 1e9]).sum::<f64>();
                }
                acc
            })
        }),
        classes: vec![],
        bounds: json!({"operations": "linear (n >= 2), constrained_spline (n >= 3), evaluate / derivative / integral / PiecewiseEvaluator / evaluate_v of the result", "inputs": "every number of knots from 2 to 301 (601 thorough) x 3 ordinate patterns"}),
    });
    // ---- constructions on data whose intermediate quantities sit in odd relations (slope ratios of 1e16 and more with generic
    // mantissas, ordinates a few ulps apart, a steep piece between flat ones): internal sanity assertions must not fire
    v.push(Phase {
        name: "census-constructions-odd-relations",
        units: 4,
        split: 1,
        body: Box::new(move |unit, cx| {
            let knots: Vec<Knot> = match unit {
                0 => {
                    // flat slope a = k/100 next to a slope R times steeper
                    let a = (1 + cx.choose(100)) as f64 / 100.0;
                    let r: f64 = [1e16, 1e17, 1e20, 1e30, -1e17][cx.choose(5)];
                    let sgn = if r < 0.0 { -1.0 } else { 1.0 };
                    let r = r.abs();
                    if cx.flag() { vec![(0.0, 0.0), (1.0, sgn * a), (2.0, sgn * r), (3.0, sgn * 2.0 * r)] } else { vec![(0.0, sgn * 2.0 * r), (1.0, sgn * r), (2.0, sgn * a), (3.0, 0.0)] }
                        .into_iter().map(|(x, y)| Knot::new(x, y)).collect()
                }
                1 => {
                    // ordinates a few ulps apart (noisy plateau)
                    let base = [1.0, 1e9, -0.3][cx.choose(3)];
                    (0..4 + cx.choose(2)).map(|i| Knot::new(i as f64, f64::from_bits((base as f64).to_bits() + [0u64, 1, 5, 2, 9, 3][cx.choose(6)]))).collect()
                }
                2 => {
                    // the same on an uneven, offset grid
                    let x0 = [0.0, 1e6, -7.5][cx.choose(3)];
                    let a = (1 + cx.choose(50)) as f64 / 37.0;
                    [(0.0, 0.0), (0.5, a * 0.5), (0.75, a * 0.5 + 1e15), (3.0, 5e16), (10.0, 5e16 + a)].into_iter().map(|(x, y)| Knot::new(x0 + x, y)).collect()
                }
                _ => {
                    // huge common offset in the ordinates with small steps
                    let off = [1e9, 5e7, -1e12, 1e15][cx.choose(4)];
                    let x0 = [0.0, 1e10][cx.choose(2)];
                    (0..5).map(|i| Knot::new(x0 + i as f64, off + 0.3 * ((i * 7 + cx.choose(3)) % 5) as f64)).collect()
                }
            };
            cx.nontrivial();
            cx.evals(3);
            let desc = json!({"knots": knots.iter().map(|k| json!([fj(k.x), fj(k.y)])).collect::<Vec<_>>()});
            if cx.sampling() {
                cx.sample(desc.clone());
            }
            np("constrained_spline / linear", desc, || {
                let s = constrained_spline(&knots);
                let l = linear(&knots);
                s.evaluate(knots[1].x) + l.evaluate(knots[1].x) + s.derivative().evaluate(knots[2].x)
            })
        }),
        classes: vec![],
        bounds: json!({"operations": "constrained_spline, linear, evaluate, derivative", "inputs": "4 knots with a flat slope k/100 (k=1..100) next to slopes 1e16..1e30 times steeper, both directions and signs; 4..5 knots whose ordinates are 0..9 ulps apart (at 1, 1e9, -0.3); an uneven offset grid with the same relations; ordinates with a common offset of 5e7..1e15 and steps of 0.3"}),
    });
    // ---- piecewise operations with nasty non-NaN ends
    let sh = Arc::new(shapes(&nasty_values(), if thorough { 4 } else { 3 }));
    let nsh = sh.len();
    let sh2 = sh.clone();
    v.push(Phase {
        name: "census-piecewise",
        units: nsh,
        split: 0,
        body: Box::new(move |unit, cx| {
            let ends = &sh2[unit];
            let other = cx.pick(&sh2[..]).clone();
            let s = *cx.pick(&[0.0, -1.0, 1e300, 5e-324]);
            cx.nontrivial();
            cx.evals(10);
            if cx.sampling() {
                cx.sample(json!({"ends": fjs(ends), "other_ends": fjs(&other), "scalar": fj(s)}));
            }
            np("piecewise operations", json!({"ends": fjs(ends), "other_ends": fjs(&other), "scalar": fj(s)}), || {
                let f = poly3_pw(ends);
                let mut g = (f.clone() * s).derivative();
                g *= s;
                g.translate(s);
                let h = -g;
                let i1 = f.integral(Knot { x: s, y: 1.0 });
                let i2 = f.indefinite();
                let qa = Piecewise { segments: ends.iter().map(|&e| Segment { end: e, poly: IntOfLogPoly4 { k: s, coeffs: [1.0, s, -1.0, 0.5], u: 2.0 } }).collect::<Vec<_>>() };
                let qb = Piecewise { segments: other.iter().map(|&e| Segment { end: e, poly: IntOfLogPoly4 { k: 1.0, coeffs: [s, 1.0, 0.5, -1.0], u: s } }).collect::<Vec<_>>() };
                let sum = &qa + &qb;
                let dif = &qb - &qa;
                let lp = logpoly8_pw(ends);
                let li = lp.integral(Knot { x: 1.0, y: s });
                let mut acc = 0.0;
                for x in [s, 1.0, f64::INFINITY, f64::NEG_INFINITY, f64::NAN] {
                    acc += h.evaluate(x) + i1.evaluate(x) + i2.evaluate(x) + sum.evaluate(x) + dif.evaluate(x) + li.evaluate(x);
                    acc += PiecewiseEvaluator::new(&sum.segments).evaluate(x);
                }
                let _ = f.abs_diff_eq(&f, 0.0) | f.relative_eq(&f, 0.0, 0.0);
                // comparisons between functions of different lengths, one a prefix of the other, in both orders
                let short = Piecewise { segments: f.segments[..f.segments.len() - 1].to_vec() };
                let _ = f.abs_diff_eq(&short, 1e-9) | short.abs_diff_eq(&f, 1e-9) | f.relative_eq(&short, 1e-9, 1e-9) | short.relative_eq(&f, 1e-9, 1e-9) | (f == short) | (short == f);
                let (pl, ps) = (PolyN(vec![1.0, 2.0, 3.0]), PolyN(vec![1.0, 2.0]));
                let _ = pl.abs_diff_eq(&ps, 0.5) | ps.abs_diff_eq(&pl, 0.5) | pl.relative_eq(&ps, 0.5, 0.5) | ps.relative_eq(&pl, 0.5, 0.5);
                // the derived / standard operations too: Clone (clone and clone_from in both length orders), PartialEq, Debug, Default
                let mut c1 = sum.clone();
                c1.clone_from(&qa);
                let mut c2 = qa.clone();
                c2.clone_from(&sum);
                let mut c3: Piecewise<IntOfLogPoly4> = Default::default();
                c3.clone_from(&dif);
                let mut c4 = dif.clone();
                c4.clone_from(&Piecewise::default());
                acc += (c1 == qa) as u8 as f64 + (c2 == sum) as u8 as f64 + (c3 == dif) as u8 as f64 + c4.segments.len() as f64;
                if !(c1 == qa && c2 == sum && c3 == dif && c4.segments.is_empty()) {
                    panic!("clone_from does not make the destination equal to the source");
                }
                acc += format!("{:?}", c1).len() as f64;
                let _ = serde_json::to_string(&sum).ok();
                let _ = serde_cbor::to_vec(&dif).ok().and_then(|b| serde_cbor::from_slice::<Piecewise<IntOfLogPoly4>>(&b).ok());
                acc
            })
        }),
        classes: vec![],
        bounds: json!({"operations": "Piecewise *, *=, translate, -, derivative, integral, indefinite, &+&, &-&, evaluate, PiecewiseEvaluator, approx, serde",
            "inputs": "every pair of end lists of length 1..3 (4 thorough) over the nasty value set (non-NaN, +-0, subnormal, MAX, +inf) x 4 scalars"}),
    });
    // ---- Arbitrary: any byte string is an input; generation returns Ok or Err, it never panics
    v.push(Phase {
        name: "census-arbitrary",
        units: 3,
        split: 0,
        body: Box::new(move |unit, cx| {
            use arbitrary::{Arbitrary, Unstructured};
            const V: [f64; 7] = [1.0, f64::NAN, f64::INFINITY, 0.0, -1.0, 5e-324, -2.5];
            let bytes: Vec<u8> = match cx.choose(3) {
                2 => {
                    // 21..64 ends with bit-identical duplicates, descending or shuffled, followed by bytes with mixed bits
                    let n = [21usize, 22, 24, 33, 40, 64][cx.choose(6)];
                    let shuffled = cx.flag();
                    let mut b = vec![];
                    for i in 0..n {
                        let k = if shuffled { (i * 7 + 3) % n } else { n - 1 - i };
                        b.push(1);
                        b.extend((1.0 + (k / 2) as f64).to_bits().to_le_bytes()); // every value twice
                    }
                    b.push(0);
                    b.extend((0..n * 24 + 64).map(|i| ((i * 37 + 11) % 251) as u8));
                    b
                }
                0 => {
                    // 0..3 ends over V in the Vec<f64> encoding (continuation byte, 8 bytes), then piece bytes
                    let n = cx.choose(4);
                    let mut b = vec![];
                    for _ in 0..n {
                        b.push(1);
                        b.extend(V[cx.choose(V.len())].to_bits().to_le_bytes());
                    }
                    b.push(0);
                    b.extend(std::iter::repeat(0x3fu8).take(48));
                    b
                }
                _ => {
                    let fill = [0xffu8, 0x00, 0x7f, 0xf0, 0x01][cx.choose(5)];
                    vec![fill; cx.choose(41)]
                }
            };
            cx.nontrivial();
            cx.evals(2);
            if cx.sampling() {
                cx.sample(json!({"bytes": bytes.len(), "first": bytes.iter().take(12).collect::<Vec<_>>()}));
            }
            np("Arbitrary generation", json!({"bytes": bytes}), || {
                let mut n = 0usize;
                match unit {
                    0 => {
                        n += Piecewise::<Poly1>::arbitrary(&mut Unstructured::new(&bytes)).map_or(0, |p| p.segments.len());
                        n += Piecewise::<Poly1>::arbitrary_take_rest(Unstructured::new(&bytes)).map_or(0, |p| p.segments.len());
                    }
                    1 => {
                        n += Piecewise::<PolyN>::arbitrary(&mut Unstructured::new(&bytes)).map_or(0, |p| p.segments.len());
                        n += Piecewise::<PolyN>::arbitrary_take_rest(Unstructured::new(&bytes)).map_or(0, |p| p.segments.len());
                    }
                    _ => {
                        n += Piecewise::<Poly8>::arbitrary(&mut Unstructured::new(&bytes)).map_or(0, |p| p.segments.len());
                        n += Piecewise::<Piecewise<Poly0>>::arbitrary(&mut Unstructured::new(&bytes)).map_or(0, |p| p.segments.len());
                        n += Poly3::arbitrary(&mut Unstructured::new(&bytes)).map_or(0, |_| 1);
                        n += Knot::arbitrary(&mut Unstructured::new(&bytes)).map_or(0, |_| 1);
                    }
                }
                n as f64
            })
        }),
        classes: vec![],
        bounds: json!({"inputs": "byte strings encoding 0..3 ends over {1,NaN,+inf,0,-1,5e-324,-2.5} followed by piece bytes; 0..40 copies of 0xff, 0x00, 0x7f, 0xf0, 0x01; 21..64 ends in which every value occurs twice (descending / shuffled) followed by bytes with mixed bits",
            "operations": "Arbitrary::arbitrary and arbitrary_take_rest for Piecewise<Poly1>, Piecewise<PolyN>, Piecewise<Poly8>, Piecewise<Piecewise<Poly0>>; arbitrary for Poly3, Knot"}),
    });
    // ---- documented rejections: executed and reported, never flagged
    v.push(Phase {
        name: "documented-rejections",
        units: 8,
        split: 0,
        body: Box::new(move |unit, cx| {
            let empty: Piecewise<Poly1> = Piecewise { segments: vec![] };
            let one = Piecewise { segments: vec![Segment { end: 1.0, poly: IntOfLogPoly4::default() }] };
            let nan = Piecewise { segments: vec![Segment { end: f64::NAN, poly: IntOfLogPoly4::default() }, Segment { end: 2.0, poly: IntOfLogPoly4::default() }] };
            let emptyq: Piecewise<IntOfLogPoly4> = Piecewise { segments: vec![] };
            let panicked = match unit {
                0 => guard(|| linear(&[Knot::new(0.0, 0.0)]).segments.len()).is_err(),
                1 => guard(|| constrained_spline(&[Knot::new(0.0, 0.0), Knot::new(1.0, 1.0)]).segments.len()).is_err(),
                2 => guard(|| empty.evaluate(0.0)).is_err(),
                3 => guard(|| PiecewiseEvaluator::new(&empty.segments).evaluate(0.0)).is_err(),
                4 => guard(|| empty.evaluate_v(vec![0.0]).count()).is_err(),
                5 => guard(|| (&one + &nan).segments.len()).is_err(),
                6 => guard(|| (&nan - &one).segments.len()).is_err(),
                _ => guard(|| (&one + &emptyq).segments.len()).is_err(),
            };
            cx.class(if panicked { 0 } else { 1 });
            cx.evals(1);
            if cx.sampling() {
                cx.sample(json!({"rejection": unit, "panicked": panicked}));
            }
            Ok(())
        }),
        classes: vec![("documented_rejection_panics", false), ("documented_rejection_returns", false)],
        bounds: json!({"operations": "linear(<2 knots), constrained_spline(<3 knots), evaluate / PiecewiseEvaluator::new / evaluate_v on an empty function, + and - with a NaN breakpoint, + with an empty operand: executed and counted, never flagged"}),
    });
    v
}
