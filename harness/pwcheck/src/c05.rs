//! C05 — constrained spline never overshoots, is flat at data extrema, coincides with the exact Kruger spline.
use crate::spline::*;
use exact::{q, Q};
use serde_json::json;
use std::sync::Arc;
use xplore::*;

pub fn check(thorough: bool, _seed: u64) -> Check {
    let (lists, reduced_from) = abscissa_lists(thorough);
    let lists = Arc::new(lists);
    let n = lists.len();
    let ph = Phase {
        name: "knot-lists",
        units: n,
        split: 3,
        body: Box::new(move |unit, cx| {
            let xs = &lists[unit];
            let (ys, _fam) = pick_ordinates(cx, xs, unit >= reduced_from);
            let a = analyse(xs, &ys)?;
            cx.evals(1);
            let signs: Vec<i32> = a.secants.iter().map(|s| s.signum()).collect();
            let extremum = signs.windows(2).any(|w| w[0] * w[1] <= 0);
            let collinear = a.secants.windows(2).all(|w| w[0].eq(&w[1]));
            if extremum {
                cx.nontrivial();
                cx.class(0);
            }
            if signs.iter().any(|s| *s == 0) {
                cx.class(1);
            }
            if collinear {
                cx.class(2);
            }
            if signs.windows(2).any(|w| w[0] * w[1] < 0) {
                cx.class(3);
            }
            if cx.sampling() {
                cx.sample(json!({"knots_x": xs, "knots_y": ys}));
            }
            // whole curve = exact Kruger spline: the four Hermite data of every piece (a cubic is determined by them)
            a.hermite(cx).map_err(|(w, o)| Fail::new(format!("returned curve differs from the exact Kruger spline: {w}"), a.d(o)))?;
            let mut sup = 0.0f64;
            for i in 0..a.n - 1 {
                let (x0, x1) = (q(xs[i]), q(xs[i + 1]));
                let h = x1.sub(&x0);
                let c = a.coeffs[i];
                // exact extrema of g(x) = b + 2c x + 3d x^2 over [x0,x1]
                let mut cands = vec![dcubic(&c, &x0), dcubic(&c, &x1)];
                if c[3] != 0.0 {
                    let xs_ = q(c[2]).neg().div(&q(c[3]).mul_i(3));
                    if x0.lt(&xs_) && xs_.lt(&x1) {
                        cands.push(dcubic(&c, &xs_));
                    }
                }
                let sigma = a.secants[i].signum();
                let tder = &a.tau_der[i];
                let tval = &a.tau_val[i];
                if sigma == 0 {
                    let m = cands.iter().fold(Q::zero(), |m, g| m.max(&g.abs()));
                    if !m.le(tder) {
                        return Err(Fail::new("plateau interval: the spline is not flat (|p'| exceeds the rounding bound somewhere in the interval)", a.d(json!({"piece": i, "max|p'|~": m.to_f64(), "tolerance~": tder.to_f64()}))));
                    }
                } else {
                    let sg = |g: &Q| if sigma > 0 { g.clone() } else { g.neg() };
                    let mn = cands.iter().map(sg).fold(None::<Q>, |m, g| Some(match m { None => g, Some(m) => m.min(&g) })).unwrap();
                    if !tder.is_zero() {
                        cx.ratio(mn.neg().to_f64().max(0.0) / tder.to_f64());
                    }
                    if !tder.neg().le(&mn) {
                        return Err(Fail::new("the spline is not monotone on a knot interval (its derivative takes the sign opposite to the secant slope)", a.d(json!({"piece": i, "min of sign*p' over the interval~": mn.to_f64(), "tolerance~": tder.to_f64()}))));
                    }
                    // no overshoot: excursion beyond the end values is at most h * max(0, -min sigma*g)
                    let exc = if mn.signum() < 0 { h.mul(&mn.neg()) } else { Q::zero() };
                    let tol = tval.add(&h.mul(tder));
                    if !exc.le(&tol) {
                        return Err(Fail::new("the spline leaves the band between the two knot ordinates of an interval", a.d(json!({"piece": i, "excursion_bound~": exc.to_f64(), "tolerance~": tol.to_f64()}))));
                    }
                }
                sup = sup.max(tval.to_f64() + 8.0 / 27.0 * h.to_f64() * tder.to_f64());
            }
            // flat at data extrema
            for k in 1..a.n - 1 {
                if a.secants[k - 1].mul(&a.secants[k]).signum() <= 0 {
                    for (seg, tol) in [(k - 1, &a.tau_der[k - 1]), (k, &a.tau_der[k])] {
                        let g = a.slope(seg, xs[k]).abs();
                        if !g.le(tol) {
                            return Err(Fail::new("slope at an interior knot where the adjacent secant slopes differ in sign (or one is zero) is not zero", a.d(json!({"knot": k, "piece": seg, "|p'|~": g.to_f64(), "tolerance~": tol.to_f64()}))));
                        }
                    }
                }
            }
            // collinear knots reproduce the straight line: all higher coefficients vanish to rounding
            if collinear && a.n >= 3 {
                for i in 0..a.n - 1 {
                    let mid = q(xs[i]).add(&q(xs[i + 1])).div_i(2);
                    let line = q(ys[i]).add(&a.secants[i].mul(&mid.sub(&q(xs[i]))));
                    let c = a.coeffs[i];
                    let v = q(c[3]).mul(&mid).add(&q(c[2])).mul(&mid).add(&q(c[1])).mul(&mid).add(&q(c[0]));
                    let tol = a.tau_val[i].add(&q(xs[i + 1]).sub(&q(xs[i])).mul(&a.tau_der[i]));
                    if !v.sub(&line).abs().le(&tol) {
                        return Err(Fail::new("collinear knots are not reproduced as the straight line (checked at the interval midpoint)", a.d(json!({"piece": i, "p(mid)~": v.to_f64(), "line(mid)~": line.to_f64(), "tolerance~": tol.to_f64()}))));
                    }
                }
            }
            let _ = sup;
            Ok(())
        }),
        classes: vec![("interior_extremum_or_plateau", true), ("plateau_interval", true), ("collinear_knots", true), ("strict_sign_change", true)],
        bounds: json!({"space": "same knot lists as C04", "decision": "for every knot interval the exact minimum/maximum of the returned cubic's derivative over the whole interval (end points and the rational critical point) - all real x of the interval at once, no sampling of x",
            "whole curve": "Hermite data of every piece within tolerance of the exact spline => sup-norm distance <= tau_val + (8/27) h tau_der"}),
    };
    Check {
        id: "C05",
        rule: "choice tree as C04; each leaf is one knot list run through the real constrained_spline, monotonicity / overshoot / flatness decided analytically in exact rational arithmetic from the returned cubic; non-trivial = data with >=1 interior extremum or plateau".into(),
        assumptions: vec!["tolerance 2^10*2^-53*M (DESIGN 3.4)".into()],
        phases: vec![ph],
        extra: Default::default(),
        controls: vec![],
    }
}
