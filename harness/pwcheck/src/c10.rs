//! C10 — accuracy of the quartic log-integral form for every positive argument.
use crate::common::*;
use exact::{dy, Big, Dy};
use serde_json::json;
use std::sync::Arc;
use xplore::*;

/// form parameters (k, c1..c4, u)
fn forms() -> Vec<(&'static str, [f64; 6])> {
    vec![
        ("only k", [1.0, 0.0, 0.0, 0.0, 0.0, 0.0]),
        ("only c1", [0.0, 1.0, 0.0, 0.0, 0.0, 0.0]),
        ("only c2", [0.0, 0.0, 1.0, 0.0, 0.0, 0.0]),
        ("only c3", [0.0, 0.0, 0.0, 1.0, 0.0, 0.0]),
        ("only c4", [0.0, 0.0, 0.0, 0.0, 1.0, 0.0]),
        ("only u", [0.0, 0.0, 0.0, 0.0, 0.0, 1.0]),
        ("all ones", [1.0, 1.0, 1.0, 1.0, 1.0, 1.0]),
        ("alternating", [1.0, -1.0, 1.0, -1.0, 1.0, -1.0]),
        ("mixed", [1.0, 0.5, -0.25, 0.125, 1.0, -1.0]),
        ("integral of 2+3L+4L^2+5L^3+6L^4", [2.0, -2.0, 0.5, -1.1666666666666665, 0.9583333333333334, -121.0]),
        ("u = 24*c4 (integral of a cubic in ln v)", [0.1, -2.0, 0.5, -1.5, 0.25, 6.0]),
        ("u = 24*c4, only the tail pair", [0.0, 0.0, 0.0, 0.0, -0.125, -3.0]),
        ("u = 24*c4 = c3*6", [2.0, 1.0, 1.0, 4.0, 1.0, 24.0]),
        ("u 20 orders below c", [0.0, 1.0, 1.0, 1.0, 1.0, 1e-20]),
        ("u 20 orders below c4=1e3", [0.0, 0.0, 0.0, 0.0, 1e3, -1e-17]),
        ("c 20 orders below u", [0.0, 1e-20, -1e-20, 1e-20, 1e-20, 1.0]),
        ("k 20 orders below the rest", [1e-20, 1.0, -0.5, 0.25, 1.0, 2.0]),
        ("mixed * 2^-60", [8.673617379884035e-19, 4.336808689942018e-19, -2.168404344971009e-19, 1.0842021724855044e-19, 8.673617379884035e-19, -8.673617379884035e-19]),
        ("mixed * 2^40", [1099511627776.0, 549755813888.0, -274877906944.0, 137438953472.0, 1099511627776.0, -1099511627776.0]),
    ]
}

const LN_MAX: f64 = 709.782712893384;

/// exact value S and sum of magnitudes T of k + v*sum c_j x^j + u*v*x^5*R(x), x = -(ln v) as f64
fn exact_value(p: &[f64; 6], v: f64, x: f64, r: &Dy) -> (Dy, Dy) {
    let (vd, xd) = (dy(v), dy(x));
    let xa = xd.abs();
    let mut s = dy(p[0]);
    let mut t = dy(p[0]).abs();
    let mut pw = xd.clone();
    let mut pwa = xa.clone();
    for j in 1..=4 {
        let term = vd.mul(&dy(p[j])).mul(&pw);
        s = s.add(&term);
        t = t.add(&vd.mul(&dy(p[j]).abs()).mul(&pwa));
        pw = pw.mul(&xd);
        pwa = pwa.mul(&xa);
    }
    // pw = x^5 now
    let tail = dy(p[5]).mul(&vd).mul(&pw).mul(r);
    s = s.add(&tail);
    t = t.add(&tail.abs());
    (s, t)
}

fn one_v(v: f64, scale_big: bool, cx: &mut Cx) -> Verdict {
    one_v_forms(v, scale_big, cx, forms())
}
/// every combination of zero / non-zero among c1..c4 and u (k non-zero): fast paths keyed on which parameters vanish
fn zero_pattern_forms() -> Vec<(&'static str, [f64; 6])> {
    (0..32u32).map(|m| {
        let val = [1.5, 0.5, 2.0, -0.75, 3.0];
        let mut p = [0.25, 0.0, 0.0, 0.0, 0.0, 0.0];
        for j in 0..5 {
            if m >> j & 1 == 1 {
                p[1 + j] = val[j];
            }
        }
        ("zero pattern of (c1,c2,c3,c4,u)", p)
    }).chain([
        // coefficients that cancel in a plain sum (all four, in pairs, with and without a tail)
        ("c1+c2+c3+c4 = 0, u = 0", [0.5, 1.5, -2.0, 0.25, 0.25, 0.0]),
        ("c1 = -c2, u = 0", [0.5, 1.0, -1.0, 0.0, 0.0, 0.0]),
        ("c1+c2 = -(c3+c4), u = 0", [0.0, 1.0, 1.0, -1.0, -1.0, 0.0]),
        ("c1+c2+c3+c4 = 0, u != 0", [0.25, 2.0, -1.0, -1.0, 0.0, 3.0]),
        ("c1+c2+c3+c4+u = 0", [0.25, 1.0, 1.0, 1.0, 1.0, -4.0]),
        ("k = -(c1+..+c4)", [-3.0, 0.5, 1.0, 1.0, 0.5, 0.0]),
    ]).collect()
}
fn one_v_forms(v: f64, scale_big: bool, cx: &mut Cx, forms: Vec<(&'static str, [f64; 6])>) -> Verdict {
    let x = -(v.ln());
    let r = exact::series_r(x);
    let ten12 = Dy { m: Big::from_decimal("1000000000000"), e: 0 };
    for (name, p0) in forms {
        let mut p = p0;
        if scale_big && v > 1.0 {
            // keep the stated terms far below the overflow threshold: scale c and u by 2^-(exponent of v + 50)
            let sh = -((v.log2().ceil() as i32) + 50);
            for j in 1..6 {
                p[j] *= 2f64.powi(sh.max(-1000));
            }
        }
        let f = IntOfLogPoly4 { k: p[0], coeffs: [p[1], p[2], p[3], p[4]], u: p[5] };
        let got = guard(|| f.evaluate(v));
        cx.evals(1);
        let (s, t) = exact_value(&p, v, x, &r);
        let detail = |g: serde_json::Value, err: f64| json!({"form": name, "k,c1..c4,u": fjs(&p), "v": fj(v), "x=-ln v": fj(x), "exact_value~": s.to_f64(), "sum_of_term_magnitudes~": t.to_f64(), "abs_error~": err, "got": g});
        let known = x + p[5].abs().max(1.0).ln() > LN_MAX - 1e-6; // |u|*e^x at or beyond the overflow threshold (margin for the rounding of ln)
        // K2: an unscaled intermediate term c_j*x^j (or u*x^5*R(x)) lies in the subnormal-precision range although
        // the stated term v*c_j*x^j does not: the final scaling by a huge v cannot restore the bits lost to gradual underflow
        let xd = dy(x).abs();
        let k2 = v > 1.0
            && (1..=5).any(|j| {
                if p[j] == 0.0 {
                    return false;
                }
                let mut t = dy(p[j]).abs().mul(&xd.powi(j as u32));
                if j == 5 {
                    t = t.mul(&r.abs());
                }
                !t.is_zero() && t.ilog2() < -969
            });
        let mk = |f: Fail| if known { f.with_finding("K1") } else if k2 { f.with_finding("K2") } else { f };
        let g = match got {
            Err(pn) => return Err(Fail::new(format!("IntOfLogPoly4::evaluate panicked: {pn}"), detail(json!(pn), 0.0))),
            Ok(g) => g,
        };
        if v == 1.0 && g.to_bits() != p[0].to_bits() && !(g == 0.0 && p[0] == 0.0) {
            return Err(Fail::new("value at v=1 is not exactly k", detail(fj(g), (g - p[0]).abs())));
        }
        if !g.is_finite() {
            if t.ilog2_or(-2000) < 1000 {
                return Err(mk(Fail::new("IntOfLogPoly4::evaluate is not finite although every stated term is far below the overflow threshold", detail(fj(g), f64::NAN))));
            }
            continue;
        }
        // |got - S| * 1e12 <= T  (+ one subnormal ulp of absolute slack: gradual underflow is part of the trusted base)
        let err = dy(g).sub(&s).abs();
        let lhs = err.mul(&ten12);
        let rhs = t.add(&Dy::pow2(-1074).mul(&ten12));
        if !t.is_zero() {
            cx.ratio(err.to_f64() / (t.to_f64() * 1e-12 + 5e-324));
        }
        if !lhs.le(&rhs) {
            return Err(mk(Fail::new("error of IntOfLogPoly4::evaluate exceeds 1e-12 * (sum of the magnitudes of the terms)", detail(fj(g), err.to_f64()))));
        }
    }
    Ok(())
}

trait IlogOr {
    fn ilog2_or(&self, d: i64) -> i64;
}
impl IlogOr for Dy {
    fn ilog2_or(&self, d: i64) -> i64 {
        if self.is_zero() { d } else { self.ilog2() }
    }
}

fn offset_ulps(c: f64, k: i64) -> f64 {
    f64::from_bits((c.to_bits() as i64 + k) as u64)
}

pub fn check(thorough: bool, seed: u64) -> Check {
    let radius: i64 = if thorough { 1 << 20 } else { 1 << 14 };
    let chunk = 512i64;
    let nchunks = (2 * radius / chunk) as usize;
    // centres: v = 1 (x -> 0), and the two switch points x = -1.71 (v = e^1.71) and x = 1.72 (v = e^-1.72)
    let centres: [(f64, &str); 3] = [(1.0, "v=1"), (1.71f64.exp(), "switch x=-1.71"), ((-1.72f64).exp(), "switch x=1.72")];
    let near = Phase {
        name: "every-float-near-critical-points",
        units: 3 * nchunks,
        split: 0,
        body: Box::new(move |unit, cx| {
            let (c, _name) = centres[unit / nchunks];
            let base = -radius + (unit % nchunks) as i64 * chunk;
            let k = base + cx.choose(chunk as usize + if unit % nchunks == nchunks - 1 { 1 } else { 0 }) as i64;
            let v = offset_ulps(c, k);
            cx.nontrivial();
            cx.class(unit / nchunks);
            let x = -(v.ln());
            if unit / nchunks > 0 {
                cx.class(if -1.71 < x && x < 1.72 { 3 } else { 4 });
            }
            if cx.sampling() {
                cx.sample(json!({"centre": centres[unit / nchunks].1, "ulps_from_centre": k, "v": fj(v), "x": x}));
            }
            one_v(v, false, cx)
        }),
        classes: vec![("near v=1", true), ("near switch x=-1.71", true), ("near switch x=1.72", true), ("series side of a switch", true), ("closed-form side of a switch", true)],
        bounds: json!({"arguments": format!("every float within +-{radius} ulps of v=1, of v=e^1.71 and of v=e^-1.72 (both sides of both switch points)"), "forms": "19 parameter sets (three with u = 24*c4, six unit forms, all ones, alternating, mixed, mixed*2^-60, mixed*2^40, a real integral, four sets with parameters 20 orders of magnitude apart)"}),
    };
    let n_grid: usize = if thorough { 2_000_000 } else { 50_000 };
    let gchunk = 500usize;
    let phase_shift = (seed % 1000) as f64 / 1000.0;
    let grid = Phase {
        name: "x-grid",
        units: n_grid / gchunk,
        split: 0,
        body: Box::new(move |unit, cx| {
            let j = unit * gchunk + cx.choose(gchunk);
            let x = -40.0 + 80.0 * (j as f64 + phase_shift) / n_grid as f64;
            let v = (-x).exp(); // any positive float near e^-x will do: the oracle recomputes x from v
            cx.nontrivial();
            cx.class(if x < -1.71 { 0 } else if x < 1.72 { 1 } else { 2 });
            if cx.sampling() {
                cx.sample(json!({"grid_index": j, "v": fj(v)}));
            }
            one_v(v, false, cx)
        }),
        classes: vec![("x<-1.71", true), ("-1.71<x<1.72", true), ("x>1.72", true)],
        bounds: json!({"arguments": format!("v_j = exp(-x_j), x_j = -40 + 80 (j+phase)/{n_grid}, j = 0..{n_grid} (VERIF_SEED shifts the phase)")}),
    };
    let zp = Phase {
        name: "zero-patterns-of-the-parameters",
        units: 1,
        split: 0,
        body: Box::new(move |_unit, cx| {
            let n = if thorough { 1600 } else { 400 };
            let j = cx.choose(n + 9);
            let v = if j < n { (-8.0 + 16.0 * j as f64 / n as f64).exp() } else { [1.0, 0.05, 0.5, 2.0, 1e-30, 1e30, 1e-300, 1e300, 0.9999999999][j - n] };
            cx.nontrivial();
            if cx.sampling() {
                cx.sample(json!({"v": fj(v), "forms": "all 32 zero patterns of (c1,c2,c3,c4,u), k = 0.25"}));
            }
            one_v_forms(v, v > 1e100, cx, zero_pattern_forms())
        }),
        classes: vec![],
        bounds: json!({"forms": "k = 0.25 and every subset of (c1,c2,c3,c4,u) = (1.5,0.5,2,-0.75,3) set to zero (32 forms), and six forms whose parameters cancel in a plain sum", "arguments": if thorough {"v = exp(t), t = -8 + 16 j/1600, and {1,0.05,0.5,2,1e-30,1e30,1e-300,1e300,1-1e-10}"} else {"v = exp(t), t = -8 + 16 j/400, and {1,0.05,0.5,2,1e-30,1e30,1e-300,1e300,1-1e-10}"}}),
    };
    let binades: Vec<f64> = (-1022..=1023).flat_map(|j| [2f64.powi(j), 1.5 * 2f64.powi(j)]).collect();
    let nb = binades.len();
    let binades = Arc::new(binades);
    let bchunk = 44usize;
    let bin = Phase {
        name: "every-binade",
        units: (nb + bchunk - 1) / bchunk,
        split: 0,
        body: Box::new(move |unit, cx| {
            let lo = unit * bchunk;
            let hi = (lo + bchunk).min(nb);
            let v = binades[lo + cx.choose(hi - lo)];
            cx.nontrivial();
            cx.class(if v < 1.0 { 0 } else { 1 });
            if cx.sampling() {
                cx.sample(json!({"v": fj(v)}));
            }
            one_v(v, true, cx)
        }),
        classes: vec![("v<1", true), ("v>=1", true)],
        bounds: json!({"arguments": "v = 2^j and 1.5*2^j for j = -1022..1023 (x up to +-709); for v>1 the parameters c,u are scaled by 2^-(exponent+50) so that the stated terms stay far below overflow"}),
    };
    let subs: Vec<f64> = (-1074..=-1023).map(|j| f64::from_bits(1u64 << (j + 1074))).collect();
    let subs = Arc::new(subs);
    let ns = subs.len();
    let sub = Phase {
        name: "subnormal-arguments",
        units: ns,
        split: 0,
        body: Box::new(move |unit, cx| {
            let v = subs[unit];
            cx.nontrivial();
            if cx.sampling() {
                cx.sample(json!({"v": fj(v)}));
            }
            one_v(v, false, cx)
        }),
        classes: vec![],
        bounds: json!({"arguments": "subnormal v = 2^j, j = -1074..-1023 (x = -ln v beyond ln(f64::MAX))"}),
    };
    Check {
        id: "C10",
        rule: "each leaf is one argument v evaluated by the real IntOfLogPoly4::evaluate for all nineteen parameter sets and compared with the exact value (x = -ln v as f64, R(x) from a >200-bit integer series); every float of the stated neighbourhoods, every grid point and every binade is enumerated; all leaves are non-trivial (distinct v)".into(),
        assumptions: vec!["f64::ln within 1 ulp: the oracle uses the same f64 x = -ln v as the subject (its effect on the stated formula is <= 1.2e-13 of the term magnitudes)".into(),
                          "one subnormal ulp (2^-1074) of absolute slack for gradual underflow".into()],
        phases: vec![near, grid, bin, sub, zp],
        extra: Default::default(),
        controls: vec![("oracle rejects a value off by 1e-11 relative", Box::new(|| {
            let p = [1.0, 0.5, -0.25, 0.125, 1.0, -1.0];
            let v: f64 = 0.3;
            let x = -(v.ln());
            let r = exact::series_r(x);
            let (s, t) = exact_value(&p, v, x, &r);
            let ten12 = Dy { m: Big::from_decimal("1000000000000"), e: 0 };
            let good = s.to_f64(); // the exact value rounded by the harness (never the subject)
            if !dy(good).sub(&s).abs().mul(&ten12).le(&t) { return Err("good value rejected".into()); }
            if dy(good + t.to_f64() * 1e-11).sub(&s).abs().mul(&ten12).le(&t) { return Err("bad value accepted".into()); }
            Ok(())
        }))],
    }
}
