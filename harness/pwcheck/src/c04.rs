//! C04 — constrained spline interpolates its knots with a continuous first derivative.
use crate::common::*;
use crate::spline::*;
use exact::q;
use serde_json::json;
use std::sync::Arc;
use xplore::*;

pub fn check(thorough: bool, _seed: u64) -> Check {
    let (lists, reduced_from) = abscissa_lists(thorough);
    let lists = Arc::new(lists);
    let n = lists.len();
    let ph = Phase {
        name: "knot-lists",
        units: n,
        split: 3,
        body: Box::new(move |unit, cx| {
            let xs = &lists[unit];
            let (ys, fam) = pick_ordinates(cx, xs, unit >= reduced_from);
            let a = analyse(xs, &ys)?;
            cx.evals(1);
            // classes / non-triviality
            let signs: Vec<i32> = a.secants.iter().map(|s| s.signum()).collect();
            let extremum = signs.windows(2).any(|w| w[0] * w[1] <= 0);
            let uneven = (0..a.n - 2).any(|i| (xs[i + 1] - xs[i]) != (xs[i + 2] - xs[i + 1]));
            if extremum || (a.n >= 4 && uneven) {
                cx.nontrivial();
            }
            cx.class(if extremum { 0 } else { 1 });
            cx.class(if fam == "alphabet" { 2 } else { 3 });
            cx.class(4 + (a.n - 3).min(4));
            if cx.sampling() {
                cx.sample(json!({"knots_x": xs, "knots_y": ys}));
            }
            // ends verbatim
            for i in 0..a.n - 1 {
                if a.ends[i].to_bits() != xs[i + 1].to_bits() {
                    return Err(Fail::new("segment end is not the interval's right abscissa verbatim", a.d(json!({"piece": i, "end": fj(a.ends[i])}))));
                }
            }
            // interpolation and knot slopes (exact)
            a.hermite(cx).map_err(|(w, o)| Fail::new(w, a.d(o)))?;
            // C1 continuity at interior knots
            for i in 0..a.n - 2 {
                let x = xs[i + 1];
                let jump = a.slope(i, x).sub(&a.slope(i + 1, x)).abs();
                let tol = a.tau_der[i].add(&a.tau_der[i + 1]);
                if !jump.le(&tol) {
                    return Err(Fail::new("first derivative is discontinuous at an interior knot", a.d(json!({"knot": i + 1, "jump~": jump.to_f64(), "tolerance~": tol.to_f64()}))));
                }
            }
            // composition through the real Evaluate / HasDerivative of the returned Piecewise<Poly3>
            let der = a.pw.derivative();
            for k in 0..a.n {
                let seg = if k == a.n - 1 { a.n - 2 } else { k };
                let got = a.pw.evaluate(xs[k]);
                let gd = der.evaluate(xs[k]);
                cx.evals(2);
                // evaluation bound (C01): 4*(3+2)*2^-53 * sum |c_i||x|^i, included in the 2^10 margin by adding the terms' magnitude
                let c = a.coeffs[seg];
                let ax = q(xs[k]).abs();
                let mag = q(c[0]).abs().add(&q(c[1]).abs().mul(&ax)).add(&q(c[2]).abs().mul(&ax).mul(&ax)).add(&q(c[3]).abs().mul(&ax).mul(&ax).mul(&ax));
                let tol = a.tau_val[seg].add(&mag.mul(&q(2f64.powi(-48))));
                if !got.is_finite() || !q(got).sub(&q(a.ys[k])).abs().le(&tol) {
                    return Err(Fail::new("the returned function evaluated at a knot is not the knot's ordinate", a.d(json!({"knot": k, "evaluate": fj(got), "tolerance~": tol.to_f64()}))));
                }
                let magd = q(c[1]).abs().add(&q(c[2]).abs().mul(&ax).mul_i(2)).add(&q(c[3]).abs().mul(&ax).mul(&ax).mul_i(3));
                let told = a.tau_der[seg].add(&magd.mul(&q(2f64.powi(-48))));
                if !gd.is_finite() || !q(gd).sub(&a.slopes[k]).abs().le(&told) {
                    return Err(Fail::new("derivative() of the returned function evaluated at a knot is not the Kruger knot slope", a.d(json!({"knot": k, "derivative().evaluate": fj(gd), "exact_slope~": a.slopes[k].to_f64(), "tolerance~": told.to_f64()}))));
                }
            }
            Ok(())
        }),
        classes: vec![("data_with_interior_extremum_or_plateau", true), ("strictly_monotone_data", true), ("ordinate_alphabet", true), ("near_collinear", true),
                      ("3_knots", true), ("4_knots", true), ("5_knots", true), ("6_knots", false), ("7_or_more_knots", true)],
        bounds: json!({"abscissae": format!("every increasing n-subset (n=3..{}) of {{0,1,2,3,4,5}} and of {{0,0.5,0.75,3,10,10.125}} under the transforms {:?}", if thorough {6} else {5}, &TRANSFORMS[..if thorough {8} else {7}]),
            "joint_extreme_scalings": "every 3..5-subset of {0..5} with x*2^-340 and y*2^-760, of the uneven set with x*2^340 and y*2^700 (all construction quantities normal, cross products not)",
            "long_lists": "n = 8,9,12,16,17,33,34,65,129,130,257 (also 10,32,64,66,131,258,513 thorough) knots with unit and with repeating uneven spacing, offset -7.5, scaled by 1e-6 and 3e5; ordinates from six patterns (convex, zig-zag, staircase, irregular, collinear, decreasing with 1e-9 bumps) x 7 shifts x 4 scales",
            "regularity_lists": "every sequence of 3..4 (5 thorough) interval widths over {1,2,3} that is not constant; even grids of 3..5 knots (width 1 and 0.1) with one knot moved by 1e-9, -3e-11 or 2e-13 of the width; 0.3+0.1i and 1e6+0.1i; grids of width 1 and 0.1 starting at +-2e4 and +-1e6 (both sides of the origin); [0,1e-17,1,2], [-1,0,3e-18,5], [0,1,1+2^-50,3,4], [-2,-1e-17,0,1e-17,2] (width ratios of 1e15..1e18); ordinates {0,1,-2,3.5,1+1e-9}^n, and (up to 4 knots; 5 thorough) ordinates 0, 1, 5 or 2 ulps above 1, 1e9 or -0.3 (noisy plateaus), and on grids of ordinary size and spacing ramps with one end ordinate of 1e170 or -1e150 (dynamic range inside one data set)",
            "ordinates": "every vector in {0,1,-2,3.5,1+1e-9}^n (quick tier, five knots: {0,1,-2,1+1e-9}^5) and the near-collinear family y=2x+1+delta, delta in {0,1e-9,-1e-12}^n; each scaled by 1, 1e-3, 1e6, 2^-60",
            "oracle": "exact rational Kruger spline; returned f64 coefficients taken as exact; tolerance 2^10*2^-53*M with M_val=Y+6Sh(1+r)^3, M_der=12S(1+r)^2"}),
    };
    Check {
        id: "C04",
        rule: "choice tree: abscissa list (unit) x ordinate family x scale x one ordinate per knot; each leaf is one knot list run through the real constrained_spline (and Evaluate / derivative of its result); non-trivial = data with an interior extremum/plateau, or >=4 unevenly spaced knots".into(),
        assumptions: vec!["tolerance 2^10*2^-53*M (DESIGN 3.4), M from the exact spline data".into()],
        phases: vec![ph],
        extra: Default::default(),
        controls: vec![("exact Kruger slopes of the textbook example", Box::new(|| {
            // reference model only (never the subject)
            let qx: Vec<_> = [0.0, 1.0, 2.0, 3.0].iter().map(|&x| q(x)).collect();
            let qy: Vec<_> = [0.0, 1.0, 4.0, 9.0].iter().map(|&y| q(y)).collect();
            let (_, slopes) = exact_kruger(&qx, &qy);
            // secants 1,3,5: f1 = 2*1*3/4 = 1.5, f2 = 2*3*5/8 = 3.75, f0 = 1.5 - 0.75 = 0.75, f3 = 7.5 - 1.875 = 5.625
            let want = [0.75, 1.5, 3.75, 5.625];
            for i in 0..4 { if slopes[i].to_f64() != want[i] { return Err(format!("slope {i}: {}", slopes[i].to_f64())); } }
            Ok(())
        }))],
    }
}
