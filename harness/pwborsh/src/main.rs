//! borsh configuration of C18: the subject is built with its optional `borsh` feature and every
//! serializable type is round-tripped through borsh::to_vec / from_slice.
//! pwborsh C18 <quick|thorough> <partfile>   exit 0 / 1;   pwborsh C18 replay <file>
use borsh::{BorshDeserialize, BorshSerialize};
use piecewise_polynomial::*;
use serde_json::{json, Value};
use xplore::*;

fn alphabet() -> Vec<f64> {
    vec![0.0, -0.0, 5e-324, -2.2250738585072014e-308, 1.0, exact_succ(1.0), 0.1, -0.3333333333333333, 1e300, f64::MAX, -f64::MAX, f64::INFINITY, f64::NEG_INFINITY,
         0.1f32 as f64, 1073741824.0, 7.888609052210118e-31, 65504.0, 5.960464477539063e-8, f32::MAX as f64, 1.401298464324817e-45]
}
fn exact_succ(x: f64) -> f64 {
    f64::from_bits(x.to_bits() + 1)
}
const CUBE: [f64; 3] = [-0.0, 5e-324, f64::MAX];
const BG: [f64; 4] = [1.5, -2.25, 0.1, 1e-7];

trait Nums: Sized {
    const N: usize;
    fn nums(&self) -> Vec<f64>;
    fn from_nums(v: &[f64]) -> Self;
}
macro_rules! nums_poly { ($($t:ident $n:expr),*) => {$(
    impl Nums for $t { const N: usize = $n; fn nums(&self) -> Vec<f64> { self.0.to_vec() } fn from_nums(v: &[f64]) -> Self { let mut a = [0.0; $n]; a.copy_from_slice(&v[..$n]); $t(a) } }
)*}; }
impl Nums for Poly0 { const N: usize = 1; fn nums(&self) -> Vec<f64> { vec![self.0] } fn from_nums(v: &[f64]) -> Self { Poly0(v[0]) } }
nums_poly!(Poly1 2, Poly2 3, Poly3 4, Poly4 5, Poly5 6, Poly6 7, Poly7 8, Poly8 9);
impl<T: Nums> Nums for Log<T> { const N: usize = T::N; fn nums(&self) -> Vec<f64> { self.0.nums() } fn from_nums(v: &[f64]) -> Self { Log(T::from_nums(v)) } }
impl<T: Nums> Nums for IntOfLog<T> { const N: usize = T::N + 1; fn nums(&self) -> Vec<f64> { let mut v = vec![self.k]; v.extend(self.poly.nums()); v } fn from_nums(v: &[f64]) -> Self { IntOfLog { k: v[0], poly: T::from_nums(&v[1..]) } } }
impl Nums for IntOfLogPoly4 { const N: usize = 6; fn nums(&self) -> Vec<f64> { vec![self.k, self.coeffs[0], self.coeffs[1], self.coeffs[2], self.coeffs[3], self.u] } fn from_nums(v: &[f64]) -> Self { IntOfLogPoly4 { k: v[0], coeffs: [v[1], v[2], v[3], v[4]], u: v[5] } } }
impl Nums for Knot { const N: usize = 2; fn nums(&self) -> Vec<f64> { vec![self.x, self.y] } fn from_nums(v: &[f64]) -> Self { Knot { x: v[0], y: v[1] } } }
impl<T: Nums> Nums for Segment<T> { const N: usize = T::N + 1; fn nums(&self) -> Vec<f64> { let mut v = vec![self.end]; v.extend(self.poly.nums()); v } fn from_nums(v: &[f64]) -> Self { Segment { end: v[0], poly: T::from_nums(&v[1..]) } } }

type Run = Box<dyn Fn(&[f64]) -> Result<(), (String, Value)>>;
struct Case { ty: String, n: usize, run: Run }

fn verdict<T: PartialEq>(orig: &T, back: Result<Result<T, String>, String>, on: &[f64], nm: impl Fn(&T) -> Vec<f64>) -> Result<(), (String, Value)> {
    match back {
        Err(p) => Err((format!("borsh round trip panicked: {p}"), json!(p))),
        Ok(Err(e)) => Err((format!("borsh round trip failed: {e}"), json!(e))),
        Ok(Ok(b)) => {
            let got = nm(&b);
            if got.len() != on.len() || got.iter().zip(on).any(|(a, b)| a.to_bits() != b.to_bits()) {
                return Err(("borsh: a number changed in the round trip".into(), json!({"decoded": fjs(&got)})));
            }
            if &b != orig { return Err(("borsh: decoded value is not == the original".into(), json!({"decoded": fjs(&got)}))); }
            Ok(())
        }
    }
}
/// a reader that hands out the bytes in short reads of at most `chunk` bytes (like a pipe, a socket or a buffered file)
struct ChunkReader<'a> {
    data: &'a [u8],
    chunk: usize,
}
impl<'a> borsh::io::Read for ChunkReader<'a> {
    fn read(&mut self, buf: &mut [u8]) -> borsh::io::Result<usize> {
        let n = buf.len().min(self.chunk).min(self.data.len());
        buf[..n].copy_from_slice(&self.data[..n]);
        self.data = &self.data[n..];
        Ok(n)
    }
}
fn trip<T: BorshSerialize + BorshDeserialize>(v: &T) -> Result<T, String> {
    let b = borsh::to_vec(v).map_err(|e| format!("serialize: {e}"))?;
    let direct = borsh::from_slice::<T>(&b).map_err(|e| format!("deserialize (from_slice): {e}"))?;
    // the same bytes through readers that return short reads: every one must decode to the same encoding again
    for chunk in [1usize, 7, 100, 8192] {
        let mut r = ChunkReader { data: &b, chunk };
        let again = T::deserialize_reader(&mut r).map_err(|e| format!("deserialize_reader with reads of at most {chunk} bytes: {e}"))?;
        let b2 = borsh::to_vec(&again).map_err(|e| format!("re-serialize: {e}"))?;
        if b2 != b {
            return Err(format!("deserialize_reader with reads of at most {chunk} bytes decodes a different value"));
        }
    }
    Ok(direct)
}
fn form_case<T: Nums + BorshSerialize + BorshDeserialize + PartialEq + 'static>(ty: String) -> Case {
    Case { ty, n: T::N, run: Box::new(|nums| { let v = T::from_nums(nums); let r = guard(|| trip(&v)); verdict(&v, r, nums, |b| b.nums()) }) }
}
fn pw_case<T: Nums + BorshSerialize + BorshDeserialize + PartialEq + 'static>(ty: String, pieces: usize) -> Case {
    Case { ty: format!("Piecewise<{ty}> with {pieces} segments"), n: pieces * (T::N + 1), run: Box::new(|nums| {
        let v = Piecewise { segments: nums.chunks(T::N + 1).map(|c| Segment::<T>::from_nums(c)).collect::<Vec<_>>() };
        let r = guard(|| trip(&v));
        verdict(&v, r, nums, |b| b.segments.iter().flat_map(|s| s.nums()).collect())
    }) }
}
fn cases() -> Vec<Case> {
    let mut v = vec![form_case::<Knot>("Knot".into())];
    macro_rules! poly { ($($t:ident),*) => {$(
        v.push(form_case::<$t>(stringify!($t).into()));
        v.push(form_case::<Log<$t>>(format!("Log<{}>", stringify!($t))));
        v.push(form_case::<IntOfLog<$t>>(format!("IntOfLog<{}>", stringify!($t))));
    )*}; }
    poly!(Poly0, Poly1, Poly2, Poly3, Poly4, Poly5, Poly6, Poly7, Poly8);
    v.push(form_case::<IntOfLogPoly4>("IntOfLogPoly4".into()));
    macro_rules! seg { ($($t:ty),*) => {$(
        v.push(form_case::<Segment<$t>>(format!("Segment<{}>", stringify!($t))));
        for p in 0..=4 { v.push(pw_case::<$t>(stringify!($t).to_string(), p)); }
    )*}; }
    seg!(Poly0, Poly3, Poly8, Log<Poly2>, IntOfLog<Poly1>, IntOfLogPoly4);
    v
}

/// all number vectors for a case (deterministic order)
fn inputs(n: usize, thorough: bool) -> Vec<Vec<f64>> {
    let a = alphabet();
    let mut out = vec![];
    if n == 0 { return vec![vec![]]; }
    if n <= 3 {
        let mut idx = vec![0usize; n];
        loop {
            out.push(idx.iter().map(|&i| a[i]).collect());
            let mut p = n;
            loop {
                if p == 0 { return out; }
                p -= 1;
                idx[p] += 1;
                if idx[p] < a.len() { break; }
                idx[p] = 0;
            }
        }
    }
    for pos in 0..n {
        for &val in &a {
            out.push((0..n).map(|i| if i == pos { val } else { BG[i % 4] * (1.0 + (i / 4) as f64) }).collect());
        }
    }
    let cap = n.min(if thorough { 10 } else { 8 });
    let mut idx = vec![0usize; cap];
    'o: loop {
        out.push((0..n).map(|i| if i < cap { CUBE[idx[i]] } else { BG[i % 4] }).collect());
        let mut p = cap;
        loop {
            if p == 0 { break 'o; }
            p -= 1;
            idx[p] += 1;
            if idx[p] < 3 { break; }
            idx[p] = 0;
        }
    }
    out
}

/// the numbers of a function of `pieces` segments for the many-segments sweep (ends i/2-3, background coefficients)
fn many_nums(pieces: usize, per: usize) -> Vec<f64> {
    let mut nums = Vec::with_capacity(pieces * per);
    for i in 0..pieces {
        nums.push(i as f64 * 0.5 - 3.0);
        for k in 1..per { nums.push(BG[(i + k) % 4] * (1.0 + k as f64) + (i % 97) as f64); }
    }
    nums
}

fn main() {
    let args: Vec<String> = std::env::args().collect();
    if args.len() < 4 { eprintln!("usage: pwborsh C18 <quick|thorough> <partfile> | pwborsh C18 replay <file>"); std::process::exit(2); }
    silence_panics();
    let cs = cases();
    if args[2] == "replay" {
        let v: Value = serde_json::from_str(&std::fs::read_to_string(&args[3]).unwrap_or_else(|e| machinery(&format!("{e}")))).unwrap_or_else(|e| machinery(&format!("{e}")));
        let d = &v["detail"];
        let ty = d["type"].as_str().unwrap_or("");
        let nums: Vec<f64> = d["numbers"].as_array().map(|a| a.iter().map(|s| { let t = s.as_str().unwrap_or(""); f64::from_bits(u64::from_str_radix(t.rsplit("/0x").next().unwrap_or("0"), 16).unwrap_or(0)) }).collect()).unwrap_or_default();
        let Some(c) = cs.iter().find(|c| c.ty == ty) else { machinery("replay: unknown type") };
        // a many-segments violation records the number of segments, not the numbers: rebuild them from the same pattern
        let nums = match d["segments"].as_u64() {
            Some(pieces) => many_nums(pieces as usize, c.n),
            None => nums,
        };
        let (r1, r2) = ((c.run)(&nums), (c.run)(&nums));
        if format!("{r1:?}") != format!("{r2:?}") { machinery("replay: two runs differ"); }
        match r1 {
            Ok(()) => { println!("replay: property held"); std::process::exit(0) }
            Err((w, _)) => { println!("replay: {w}"); println!("VIOLATION property=C18 replay={}", args[3]); std::process::exit(1) }
        }
    }
    let thorough = args[2] == "thorough";
    let t0 = std::time::Instant::now();
    let (mut states, mut execs, mut nontrivial) = (1u64, 0u64, 0u64);
    let mut violation: Option<Value> = None;
    let mut samples = vec![];
    'outer: for c in &cs {
        states += 1;
        for nums in inputs(c.n, thorough) {
            execs += 1;
            states += 1;
            if nums.iter().any(|v| *v == 0.0 || v.is_subnormal() || v.abs() == f64::MAX || v.is_infinite()) { nontrivial += 1; }
            if samples.len() < 3 && execs % 50021 == 7 { samples.push(json!({"type": c.ty, "numbers": fjs(&nums)})); }
            if let Err((what, obs)) = (c.run)(&nums) {
                violation = Some(json!({"what": format!("{}: {}", c.ty, what), "type": c.ty, "numbers": fjs(&nums), "observation": obs}));
                break 'outer;
            }
        }
    }
    // many segments
    if violation.is_none() {
        // every number of segments 5..=520 (compact length prefixes with escape bytes), then the size thresholds
        let sizes: Vec<usize> = (5..=520).chain([1000usize, 4097, 13108, 26215, 65535, 65536, 65537, 70000]).collect();
        for &pieces in &sizes {
            for (ci, c) in cs.iter().filter(|c| c.ty.ends_with("with 1 segments")).enumerate() {
                // (below 1000 segments: two of the piecewise types per size, alternating, to bound the cost)
                if pieces < 1000 && (ci + pieces) % 3 != 0 {
                    continue;
                }
                let nums = many_nums(pieces, c.n);
                execs += 1;
                states += 1;
                nontrivial += 1;
                if let Err((what, _obs)) = (c.run)(&nums) {
                    violation = Some(json!({"what": format!("{} (x{} segments): {}", c.ty, pieces, what), "type": c.ty, "segments": pieces, "numbers": "pattern i/2-3 ends, background coefficients", "observation": "omitted (long)"}));
                    break;
                }
            }
            if violation.is_some() { break; }
        }
    }
    if samples.is_empty() { samples.push(json!({"type": cs[0].ty, "numbers": fjs(&inputs(cs[0].n, false)[0])})); }
    let part = json!({
        "engine": "exhaustive enumeration of number contents per serializable type, subject built with feature borsh; borsh::to_vec / from_slice, and deserialize_reader through readers returning short reads (1, 7, 100, 8192 bytes)",
        "states": states, "transitions": states - 1, "traces_validated_against_impl": execs, "evaluations": execs, "distinct_nontrivial": nontrivial,
        "types": cs.iter().map(|c| c.ty.clone()).collect::<Vec<_>>(), "exhaustive": violation.is_none(),
        "bounds": "same number alphabet (incl. +-inf and f32/f16-exact doubles), positions sweeps and cubes as the serde phase; 0..4 segments; every number of segments 5..520 (each for a third of the Piecewise types in turn); 1000..70000 segments for every Piecewise type",
        "samples": samples, "violation": violation, "wall_s": t0.elapsed().as_secs_f64(),
    });
    std::fs::write(&args[3], serde_json::to_string_pretty(&part).unwrap()).unwrap_or_else(|e| machinery(&format!("cannot write part file: {e}")));
    println!("C18 borsh configuration: types={} round_trips={} violation={}", cs.len(), execs, part["violation"] != Value::Null);
    std::process::exit(if part["violation"] != Value::Null { 1 } else { 0 });
}
