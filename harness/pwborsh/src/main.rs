fn main(){}
