//! Reference arithmetic for the oracles: arbitrary-size integers (`Big`), dyadic
//! rationals (`Dy` = Big * 2^e, every finite f64 converts exactly), rationals (`Q`)
//! and a big fixed-point series for R(x) = sum_{m>=0} x^m/(m+5)!.
//! Deliberately boring: schoolbook algorithms, no unsafe, no dependencies.

use std::cmp::Ordering;

// ---------------------------------------------------------------- Big
#[derive(Clone, Debug, PartialEq, Eq)]
pub struct Big {
    neg: bool,
    mag: Vec<u32>, // little endian, no trailing zero limbs; zero = empty (neg=false)
}

fn trim(v: &mut Vec<u32>) {
    while let Some(&0) = v.last() {
        v.pop();
    }
}
fn cmp_mag(a: &[u32], b: &[u32]) -> Ordering {
    if a.len() != b.len() {
        return a.len().cmp(&b.len());
    }
    for i in (0..a.len()).rev() {
        if a[i] != b[i] {
            return a[i].cmp(&b[i]);
        }
    }
    Ordering::Equal
}
fn add_mag(a: &[u32], b: &[u32]) -> Vec<u32> {
    let (a, b) = if a.len() >= b.len() { (a, b) } else { (b, a) };
    let mut r = Vec::with_capacity(a.len() + 1);
    let mut c = 0u64;
    for i in 0..a.len() {
        let s = a[i] as u64 + if i < b.len() { b[i] as u64 } else { 0 } + c;
        r.push(s as u32);
        c = s >> 32;
    }
    if c > 0 {
        r.push(c as u32);
    }
    r
}
/// a - b with |a| >= |b|
fn sub_mag(a: &[u32], b: &[u32]) -> Vec<u32> {
    let mut r = Vec::with_capacity(a.len());
    let mut br = 0i64;
    for i in 0..a.len() {
        let mut d = a[i] as i64 - br - if i < b.len() { b[i] as i64 } else { 0 };
        if d < 0 {
            d += 1 << 32;
            br = 1;
        } else {
            br = 0;
        }
        r.push(d as u32);
    }
    assert_eq!(br, 0, "sub_mag underflow");
    trim(&mut r);
    r
}
fn mul_mag(a: &[u32], b: &[u32]) -> Vec<u32> {
    if a.is_empty() || b.is_empty() {
        return vec![];
    }
    let mut r = vec![0u32; a.len() + b.len()];
    for i in 0..a.len() {
        let mut c = 0u64;
        let ai = a[i] as u64;
        if ai == 0 {
            continue;
        }
        for j in 0..b.len() {
            let t = ai * b[j] as u64 + r[i + j] as u64 + c;
            r[i + j] = t as u32;
            c = t >> 32;
        }
        let mut k = i + b.len();
        while c > 0 {
            let t = r[k] as u64 + c;
            r[k] = t as u32;
            c = t >> 32;
            k += 1;
        }
    }
    trim(&mut r);
    r
}

impl Big {
    pub fn zero() -> Big {
        Big { neg: false, mag: vec![] }
    }
    pub fn from_u64(v: u64) -> Big {
        let mut mag = vec![v as u32, (v >> 32) as u32];
        trim(&mut mag);
        Big { neg: false, mag }
    }
    pub fn from_i64(v: i64) -> Big {
        let mut b = Big::from_u64(v.unsigned_abs());
        b.neg = v < 0 && !b.mag.is_empty();
        b
    }
    pub fn from_i128(v: i128) -> Big {
        let u = v.unsigned_abs();
        let mut mag = vec![u as u32, (u >> 32) as u32, (u >> 64) as u32, (u >> 96) as u32];
        trim(&mut mag);
        let neg = v < 0 && !mag.is_empty();
        Big { neg, mag }
    }
    pub fn from_decimal(s: &str) -> Big {
        let (neg, digits) = match s.strip_prefix('-') {
            Some(r) => (true, r),
            None => (false, s),
        };
        let mut b = Big::zero();
        for ch in digits.chars() {
            let d = ch.to_digit(10).expect("decimal digit");
            b = b.mul_small(10).add(&Big::from_u64(d as u64));
        }
        if neg {
            b = b.neg();
        }
        b
    }
    pub fn is_zero(&self) -> bool {
        self.mag.is_empty()
    }
    pub fn is_neg(&self) -> bool {
        self.neg
    }
    pub fn signum(&self) -> i32 {
        if self.mag.is_empty() {
            0
        } else if self.neg {
            -1
        } else {
            1
        }
    }
    pub fn neg(&self) -> Big {
        Big { neg: !self.neg && !self.mag.is_empty(), mag: self.mag.clone() }
    }
    pub fn abs(&self) -> Big {
        Big { neg: false, mag: self.mag.clone() }
    }
    pub fn add(&self, o: &Big) -> Big {
        if self.neg == o.neg {
            return Big { neg: self.neg, mag: add_mag(&self.mag, &o.mag) };
        }
        match cmp_mag(&self.mag, &o.mag) {
            Ordering::Equal => Big::zero(),
            Ordering::Greater => Big { neg: self.neg, mag: sub_mag(&self.mag, &o.mag) },
            Ordering::Less => Big { neg: o.neg, mag: sub_mag(&o.mag, &self.mag) },
        }
    }
    pub fn sub(&self, o: &Big) -> Big {
        self.add(&o.neg())
    }
    pub fn mul(&self, o: &Big) -> Big {
        let mag = mul_mag(&self.mag, &o.mag);
        let neg = (self.neg != o.neg) && !mag.is_empty();
        Big { neg, mag }
    }
    pub fn mul_small(&self, k: u32) -> Big {
        self.mul(&Big::from_u64(k as u64))
    }
    /// truncated (toward zero) division by a small positive integer
    pub fn div_small(&self, k: u32) -> Big {
        assert!(k > 0);
        let mut r = vec![0u32; self.mag.len()];
        let mut rem = 0u64;
        for i in (0..self.mag.len()).rev() {
            let cur = (rem << 32) | self.mag[i] as u64;
            r[i] = (cur / k as u64) as u32;
            rem = cur % k as u64;
        }
        trim(&mut r);
        let neg = self.neg && !r.is_empty();
        Big { neg, mag: r }
    }
    pub fn shl(&self, n: u64) -> Big {
        if self.mag.is_empty() {
            return Big::zero();
        }
        let limbs = (n / 32) as usize;
        let bits = (n % 32) as u32;
        let mut r = vec![0u32; limbs];
        if bits == 0 {
            r.extend_from_slice(&self.mag);
        } else {
            let mut c = 0u32;
            for &w in &self.mag {
                r.push((w << bits) | c);
                c = w >> (32 - bits);
            }
            if c > 0 {
                r.push(c);
            }
        }
        Big { neg: self.neg, mag: r }
    }
    /// magnitude shifted right (truncation toward zero)
    pub fn shr(&self, n: u64) -> Big {
        let limbs = (n / 32) as usize;
        let bits = (n % 32) as u32;
        if limbs >= self.mag.len() {
            return Big::zero();
        }
        let src = &self.mag[limbs..];
        let mut r = Vec::with_capacity(src.len());
        if bits == 0 {
            r.extend_from_slice(src);
        } else {
            for i in 0..src.len() {
                let hi = if i + 1 < src.len() { src[i + 1] << (32 - bits) } else { 0 };
                r.push((src[i] >> bits) | hi);
            }
        }
        trim(&mut r);
        let neg = self.neg && !r.is_empty();
        Big { neg, mag: r }
    }
    pub fn bit_len(&self) -> u64 {
        match self.mag.last() {
            None => 0,
            Some(&t) => (self.mag.len() as u64 - 1) * 32 + (32 - t.leading_zeros() as u64),
        }
    }
    pub fn trailing_zeros(&self) -> u64 {
        let mut n = 0u64;
        for &w in &self.mag {
            if w == 0 {
                n += 32;
            } else {
                return n + w.trailing_zeros() as u64;
            }
        }
        0
    }
    pub fn cmp(&self, o: &Big) -> Ordering {
        match (self.signum(), o.signum()) {
            (a, b) if a != b => a.cmp(&b),
            (0, _) => Ordering::Equal,
            (1, _) => cmp_mag(&self.mag, &o.mag),
            _ => cmp_mag(&o.mag, &self.mag),
        }
    }
    /// top 64 bits of the magnitude and the exponent e such that |self| ~= top * 2^e (truncated)
    fn top64(&self) -> (u64, i64) {
        let bl = self.bit_len();
        if bl <= 64 {
            let mut v = 0u64;
            for (i, &w) in self.mag.iter().enumerate() {
                v |= (w as u64) << (32 * i);
            }
            (v, 0)
        } else {
            let sh = bl - 64;
            let t = self.shr(sh);
            let mut v = 0u64;
            for (i, &w) in t.mag.iter().enumerate() {
                v |= (w as u64) << (32 * i);
            }
            (v, sh as i64)
        }
    }
}

// ---------------------------------------------------------------- Dy
/// value = m * 2^e
#[derive(Clone, Debug)]
pub struct Dy {
    pub m: Big,
    pub e: i64,
}

impl Dy {
    pub fn zero() -> Dy {
        Dy { m: Big::zero(), e: 0 }
    }
    pub fn from_i64(v: i64) -> Dy {
        Dy { m: Big::from_i64(v), e: 0 }
    }
    pub fn pow2(e: i64) -> Dy {
        Dy { m: Big::from_u64(1), e }
    }
    /// exact conversion; panics on NaN / infinity (oracle misuse = machinery error)
    pub fn from_f64(x: f64) -> Dy {
        let bits = x.to_bits();
        assert!((bits >> 52) & 0x7ff != 0x7ff, "Dy::from_f64 of non-finite {x}");
        // (bit tests, not float comparisons: a CPU in denormals-are-zero mode compares subnormals equal to zero)
        if bits << 1 == 0 {
            return Dy::zero();
        }
        let neg = bits >> 63 == 1;
        let ex = ((bits >> 52) & 0x7ff) as i64;
        let frac = bits & ((1u64 << 52) - 1);
        let (m, e) = if ex == 0 { (frac, -1074) } else { (frac | (1u64 << 52), ex - 1075) };
        let tz = m.trailing_zeros() as i64;
        let mut b = Big::from_u64(m >> tz);
        if neg {
            b = b.neg();
        }
        Dy { m: b, e: e + tz }
    }
    pub fn is_zero(&self) -> bool {
        self.m.is_zero()
    }
    pub fn signum(&self) -> i32 {
        self.m.signum()
    }
    pub fn neg(&self) -> Dy {
        Dy { m: self.m.neg(), e: self.e }
    }
    pub fn abs(&self) -> Dy {
        Dy { m: self.m.abs(), e: self.e }
    }
    pub fn add(&self, o: &Dy) -> Dy {
        if self.is_zero() {
            return o.clone();
        }
        if o.is_zero() {
            return self.clone();
        }
        let e = self.e.min(o.e);
        let a = self.m.shl((self.e - e) as u64);
        let b = o.m.shl((o.e - e) as u64);
        Dy { m: a.add(&b), e }.norm()
    }
    pub fn sub(&self, o: &Dy) -> Dy {
        self.add(&o.neg())
    }
    pub fn mul(&self, o: &Dy) -> Dy {
        Dy { m: self.m.mul(&o.m), e: self.e + o.e }
    }
    pub fn mul_i(&self, k: i64) -> Dy {
        Dy { m: self.m.mul(&Big::from_i64(k)), e: self.e }
    }
    pub fn mul_pow2(&self, k: i64) -> Dy {
        Dy { m: self.m.clone(), e: self.e + k }
    }
    pub fn powi(&self, n: u32) -> Dy {
        let mut r = Dy::from_i64(1);
        for _ in 0..n {
            r = r.mul(self);
        }
        r
    }
    fn norm(self) -> Dy {
        if self.m.is_zero() {
            return Dy::zero();
        }
        let tz = self.m.trailing_zeros();
        if tz >= 32 {
            Dy { m: self.m.shr(tz), e: self.e + tz as i64 }
        } else {
            self
        }
    }
    pub fn cmp(&self, o: &Dy) -> Ordering {
        let sa = self.signum();
        let sb = o.signum();
        if sa != sb {
            return sa.cmp(&sb);
        }
        if sa == 0 {
            return Ordering::Equal;
        }
        // quick magnitude test on binary exponents
        let ea = self.m.bit_len() as i64 + self.e;
        let eb = o.m.bit_len() as i64 + o.e;
        if ea != eb {
            let c = ea.cmp(&eb);
            return if sa > 0 { c } else { c.reverse() };
        }
        self.sub(o).signum().cmp(&0)
    }
    pub fn le(&self, o: &Dy) -> bool {
        self.cmp(o) != Ordering::Greater
    }
    pub fn lt(&self, o: &Dy) -> bool {
        self.cmp(o) == Ordering::Less
    }
    pub fn eq(&self, o: &Dy) -> bool {
        self.cmp(o) == Ordering::Equal
    }
    pub fn max(&self, o: &Dy) -> Dy {
        if self.cmp(o) == Ordering::Less {
            o.clone()
        } else {
            self.clone()
        }
    }
    pub fn min(&self, o: &Dy) -> Dy {
        if self.cmp(o) == Ordering::Greater {
            o.clone()
        } else {
            self.clone()
        }
    }
    /// approximate conversion (truncated to 64 significant bits, then rounded by the cast) —
    /// used for reporting and for majorants that are rounded *up* by the caller, never for verdict equality.
    pub fn to_f64(&self) -> f64 {
        if self.is_zero() {
            return 0.0;
        }
        let (t, sh) = self.m.top64();
        let mut v = t as f64;
        let mut e = sh + self.e;
        // scale in steps to stay inside the exponent range
        while e > 0 {
            let s = e.min(900);
            v *= 2f64.powi(s as i32);
            e -= s;
            if v.is_infinite() {
                break;
            }
        }
        while e < 0 {
            let s = (-e).min(900);
            v *= 2f64.powi(-(s as i32));
            e += s;
            if v == 0.0 {
                break;
            }
        }
        if self.m.is_neg() {
            -v
        } else {
            v
        }
    }
    /// the f64 nearest to the exact value (ties to even; gradual underflow; overflow to infinity), computed with integer
    /// operations only: independent of the CPU's floating-point mode (rounding direction, flush-to-zero)
    pub fn round_f64(&self) -> f64 {
        if self.is_zero() {
            return 0.0;
        }
        let neg = self.m.is_neg();
        let a = self.m.abs();
        let msb = a.bit_len() as i64 - 1 + self.e;
        let qexp = (msb - 52).max(-1074);
        let sh = self.e - qexp;
        let n = if sh >= 0 {
            a.shl(sh as u64)
        } else {
            let k = (-sh) as u64;
            let fl = a.shr(k);
            let rem = a.sub(&fl.shl(k));
            let half = Big::from_u64(1).shl(k - 1);
            let odd = fl.mag.first().map_or(false, |w| w & 1 == 1);
            match rem.cmp(&half) {
                Ordering::Less => fl,
                Ordering::Greater => fl.add(&Big::from_u64(1)),
                Ordering::Equal => if odd { fl.add(&Big::from_u64(1)) } else { fl },
            }
        };
        let (mut nn, z) = n.top64();
        assert!(z == 0 && nn <= 1u64 << 53);
        let mut qe = qexp;
        if nn == 1u64 << 53 {
            nn >>= 1;
            qe += 1;
        }
        let bits = if nn < 1u64 << 52 {
            nn
        } else {
            let ex = qe + 1075;
            if ex >= 2047 { 0x7ffu64 << 52 } else { ((ex as u64) << 52) | (nn & ((1u64 << 52) - 1)) }
        };
        f64::from_bits(bits | if neg { 1u64 << 63 } else { 0 })
    }
    /// floor(log2(|self|)); panics on zero
    pub fn ilog2(&self) -> i64 {
        assert!(!self.is_zero());
        self.m.bit_len() as i64 - 1 + self.e
    }
    /// truncate toward zero to a multiple of 2^-p
    pub fn trunc_frac(&self, p: i64) -> Dy {
        if self.e >= -p {
            return self.clone();
        }
        let drop = (-p - self.e) as u64;
        Dy { m: self.m.shr(drop), e: -p }
    }
    /// the same value (truncated toward zero if necessary) with exponent exactly -p
    pub fn at_exp(&self, p: i64) -> Dy {
        if self.e >= -p {
            Dy { m: self.m.shl((self.e + p) as u64), e: -p }
        } else {
            self.trunc_frac(p)
        }
    }
    pub fn to_q(&self) -> Q {
        if self.e >= 0 {
            Q { n: self.m.shl(self.e as u64), d: Big::from_u64(1) }
        } else {
            Q { n: self.m.clone(), d: Big::from_u64(1).shl((-self.e) as u64) }.reduce2()
        }
    }
}

pub fn dy(x: f64) -> Dy {
    Dy::from_f64(x)
}

// ---------------------------------------------------------------- Q
/// n / d with d > 0 (only powers of two are cancelled)
#[derive(Clone, Debug)]
pub struct Q {
    pub n: Big,
    pub d: Big,
}

impl Q {
    pub fn zero() -> Q {
        Q { n: Big::zero(), d: Big::from_u64(1) }
    }
    pub fn from_i64(v: i64) -> Q {
        Q { n: Big::from_i64(v), d: Big::from_u64(1) }
    }
    pub fn ratio(n: i64, d: i64) -> Q {
        assert!(d != 0);
        let q = Q { n: Big::from_i64(n), d: Big::from_i64(d.abs()) };
        if d < 0 {
            q.neg()
        } else {
            q
        }
    }
    pub fn from_f64(x: f64) -> Q {
        Dy::from_f64(x).to_q()
    }
    fn reduce2(self) -> Q {
        if self.n.is_zero() {
            return Q::zero();
        }
        let t = self.n.trailing_zeros().min(self.d.trailing_zeros());
        if t == 0 {
            self
        } else {
            Q { n: self.n.shr(t), d: self.d.shr(t) }
        }
    }
    pub fn signum(&self) -> i32 {
        self.n.signum()
    }
    pub fn is_zero(&self) -> bool {
        self.n.is_zero()
    }
    pub fn neg(&self) -> Q {
        Q { n: self.n.neg(), d: self.d.clone() }
    }
    pub fn abs(&self) -> Q {
        Q { n: self.n.abs(), d: self.d.clone() }
    }
    pub fn add(&self, o: &Q) -> Q {
        if self.d == o.d {
            return Q { n: self.n.add(&o.n), d: self.d.clone() }.reduce2();
        }
        Q { n: self.n.mul(&o.d).add(&o.n.mul(&self.d)), d: self.d.mul(&o.d) }.reduce2()
    }
    pub fn sub(&self, o: &Q) -> Q {
        self.add(&o.neg())
    }
    pub fn mul(&self, o: &Q) -> Q {
        Q { n: self.n.mul(&o.n), d: self.d.mul(&o.d) }.reduce2()
    }
    pub fn div(&self, o: &Q) -> Q {
        assert!(!o.n.is_zero(), "Q division by zero");
        let mut n = self.n.mul(&o.d);
        let d = self.d.mul(&o.n.abs());
        if o.n.is_neg() {
            n = n.neg();
        }
        Q { n, d }.reduce2()
    }
    pub fn mul_i(&self, k: i64) -> Q {
        self.mul(&Q::from_i64(k))
    }
    pub fn div_i(&self, k: i64) -> Q {
        self.div(&Q::from_i64(k))
    }
    pub fn cmp(&self, o: &Q) -> Ordering {
        let sa = self.signum();
        let sb = o.signum();
        if sa != sb {
            return sa.cmp(&sb);
        }
        self.n.mul(&o.d).cmp(&o.n.mul(&self.d))
    }
    pub fn le(&self, o: &Q) -> bool {
        self.cmp(o) != Ordering::Greater
    }
    pub fn lt(&self, o: &Q) -> bool {
        self.cmp(o) == Ordering::Less
    }
    pub fn eq(&self, o: &Q) -> bool {
        self.cmp(o) == Ordering::Equal
    }
    pub fn max(&self, o: &Q) -> Q {
        if self.cmp(o) == Ordering::Less {
            o.clone()
        } else {
            self.clone()
        }
    }
    pub fn min(&self, o: &Q) -> Q {
        if self.cmp(o) == Ordering::Greater {
            o.clone()
        } else {
            self.clone()
        }
    }
    pub fn to_f64(&self) -> f64 {
        if self.n.is_zero() {
            return 0.0;
        }
        let (tn, en) = self.n.top64();
        let (td, ed) = self.d.top64();
        let v = (tn as f64) / (td as f64);
        let e = en - ed;
        let mut r = v;
        let mut e = e;
        while e > 0 {
            let s = e.min(900);
            r *= 2f64.powi(s as i32);
            e -= s;
        }
        while e < 0 {
            let s = (-e).min(900);
            r *= 2f64.powi(-(s as i32));
            e += s;
        }
        if self.n.is_neg() {
            -r
        } else {
            r
        }
    }
}

pub fn q(x: f64) -> Q {
    Q::from_f64(x)
}

// ---------------------------------------------------------------- float helpers
fn is_zero_bits(x: f64) -> bool {
    x.to_bits() << 1 == 0
}
fn is_finite_bits(x: f64) -> bool {
    (x.to_bits() >> 52) & 0x7ff != 0x7ff
}
/// IEEE-754 a*b (round to nearest even) for finite operands, in integer arithmetic: the reference for "correctly rounded"
/// that does not depend on the floating-point mode the CPU happens to be in
pub fn soft_mul(a: f64, b: f64) -> f64 {
    assert!(is_finite_bits(a) && is_finite_bits(b));
    let neg = (a.to_bits() ^ b.to_bits()) >> 63 == 1;
    if is_zero_bits(a) || is_zero_bits(b) {
        return if neg { -0.0 } else { 0.0 };
    }
    Dy::from_f64(a).mul(&Dy::from_f64(b)).round_f64()
}
/// IEEE-754 a+b (round to nearest even) for finite operands, in integer arithmetic
pub fn soft_add(a: f64, b: f64) -> f64 {
    assert!(is_finite_bits(a) && is_finite_bits(b));
    let r = Dy::from_f64(a).add(&Dy::from_f64(b));
    if r.is_zero() {
        // exact zero sum: -0 only when both operands are -0 (or x + (-x) never gives -0 in round-to-nearest)
        let both_neg = a.to_bits() >> 63 == 1 && b.to_bits() >> 63 == 1;
        return if both_neg && is_zero_bits(a) && is_zero_bits(b) { -0.0 } else { 0.0 };
    }
    r.round_f64()
}
pub fn soft_sub(a: f64, b: f64) -> f64 {
    soft_add(a, f64::from_bits(b.to_bits() ^ (1u64 << 63)))
}

pub fn succ(x: f64) -> f64 {
    // next float toward +inf (x finite or -inf)
    if x.is_nan() || x == f64::INFINITY {
        return x;
    }
    if x == 0.0 {
        return f64::from_bits(1);
    }
    let b = x.to_bits();
    if x > 0.0 {
        f64::from_bits(b + 1)
    } else {
        f64::from_bits(b - 1)
    }
}
pub fn pred(x: f64) -> f64 {
    -succ(-x)
}
/// unit in the last place of a finite x (distance to the next float away from zero; 2^-1074 for 0/subnormals)
pub fn ulp(x: f64) -> f64 {
    let a = x.abs();
    if a == f64::MAX {
        return a - pred(a);
    }
    succ(a) - a
}
/// number of floats between a and b (same sign ordering on the whole line)
pub fn ulp_distance(a: f64, b: f64) -> u64 {
    fn key(x: f64) -> i64 {
        let b = x.to_bits() as i64;
        if b < 0 {
            i64::MIN - b
        } else {
            b
        }
    }
    (key(a) as i128 - key(b) as i128).unsigned_abs() as u64
}

// ---------------------------------------------------------------- series R(x)
/// R(x) = sum_{m>=0} x^m/(m+5)!  as a dyadic number with absolute error < 2^-200
/// (|x| <= 800). Pure integer arithmetic: no exp, no ln.
pub fn series_r(x: f64) -> Dy {
    assert!(x.is_finite() && x.abs() <= 800.0, "series_r domain");
    // error introduced at one step is amplified by at most the ratio of later to earlier
    // terms, < e^|x| = 2^(1.4427|x|); keep 260 bits beyond that.
    let p: i64 = 260 + (2.0 * 1.45 * x.abs()).ceil() as i64;
    let xd = Dy::from_f64(x);
    let mut t = Dy { m: Big::from_u64(1).shl(p as u64).div_small(120), e: -p };
    let mut sum = t.clone();
    let mut m: u32 = 0;
    let mut terms = 0u32;
    loop {
        // t_{m+1} = t_m * x / (m+6)
        t = t.mul(&xd).at_exp(p);
        t = Dy { m: t.m.div_small(m + 6), e: -p };
        sum = sum.add(&t);
        m += 1;
        terms += 1;
        if t.is_zero() || (t.ilog2() < -(p - 20) && (m as f64) > x.abs()) {
            break;
        }
        assert!(terms < 20000, "series_r did not converge");
    }
    sum
}

/// e^x reconstructed from the series: x^5 R(x) + sum_{j<5} x^j/j!  (as a rational; used by self-tests and K1's predicate)
pub fn exp_from_series(x: f64) -> Q {
    let xd = Dy::from_f64(x);
    let r = series_r(x);
    let mut s = xd.powi(5).mul(&r).to_q();
    let fact = [1i64, 1, 2, 6, 24];
    for j in 0..5 {
        s = s.add(&xd.powi(j as u32).to_q().div_i(fact[j]));
    }
    s
}

// ---------------------------------------------------------------- self test
pub fn self_test() -> Result<(), String> {
    macro_rules! ck {
        ($c:expr, $($m:tt)*) => { if !($c) { return Err(format!($($m)*)); } };
    }
    // Big vs i128
    let vals: [i64; 9] = [0, 1, -1, 7, -13, 4294967296, -4294967295, 123456789012345, -987654321987];
    for &a in &vals {
        for &b in &vals {
            let (ba, bb) = (Big::from_i64(a), Big::from_i64(b));
            ck!(ba.add(&bb) == Big::from_i128(a as i128 + b as i128), "Big add {a} {b}");
            ck!(ba.sub(&bb) == Big::from_i128(a as i128 - b as i128), "Big sub {a} {b}");
            ck!(ba.mul(&bb) == Big::from_i128(a as i128 * b as i128), "Big mul {a} {b}");
            ck!(ba.cmp(&bb) == a.cmp(&b), "Big cmp {a} {b}");
        }
        ck!(Big::from_i64(a).shl(70).shr(70) == Big::from_i64(a), "Big shl/shr {a}");
        ck!(Big::from_i64(a).div_small(7) == Big::from_i64(a / 7), "Big div_small {a}");
    }
    ck!(Big::from_decimal("18446744073709551616") == Big::from_u64(1).shl(64), "from_decimal 2^64");
    // Dy round trips and arithmetic on floats whose results are exact
    let fl = [0.0, 1.0, -1.0, 0.1, -1.0 / 3.0, 5e-324, -2.2250738585072014e-308, 1e300, f64::MAX, 3.5, 1.0 + f64::EPSILON];
    for &a in &fl {
        ck!(Dy::from_f64(a).to_f64().to_bits() == (if a == 0.0 { 0.0f64 } else { a }).to_bits(), "Dy round trip {a:e}");
        ck!(Q::from_f64(a).to_f64() == a, "Q round trip {a:e}");
    }
    // integer-only rounding against the hardware (this self-test runs first, on the main thread, in the default mode)
    let sv = [0.0, -0.0, 1.0, -1.0, 0.1, 3.0, 1.0 + f64::EPSILON, 1.0 - f64::EPSILON / 2.0, 5e-324, -5e-324, 1.5e-323, 2.2250738585072014e-308, 2.225073858507201e-308,
        -1e-310, 3e-308, 1e-200, -1e-160, 1e154, 1.3407807929942597e154, 1e300, f64::MAX, -f64::MAX, 0.5, 0.75, 1e-17, 9007199254740993.0, 4503599627370497.5];
    for &a in &sv {
        ck!(Dy::from_f64(a).round_f64().to_bits() == (a + 0.0).to_bits() || a.to_bits() == (-0.0f64).to_bits(), "round_f64 round trip {a:e}");
        for &b in &sv {
            ck!(soft_mul(a, b).to_bits() == (a * b).to_bits(), "soft_mul {a:e} {b:e}: {:e} vs {:e}", soft_mul(a, b), a * b);
            ck!(soft_add(a, b).to_bits() == (a + b).to_bits(), "soft_add {a:e} {b:e}: {:e} vs {:e}", soft_add(a, b), a + b);
            ck!(soft_sub(a, b).to_bits() == (a - b).to_bits(), "soft_sub {a:e} {b:e}: {:e} vs {:e}", soft_sub(a, b), a - b);
        }
    }
    for &a in &[0.5, 3.0, -7.25, 1024.0, 0.1] {
        for &b in &[0.25, -3.0, 100.5, 0.1] {
            // double-double style exactness: a*b computed by fma residual
            let p = a * b;
            let r = f64::mul_add(a, b, -p);
            ck!(dy(a).mul(&dy(b)).eq(&dy(p).add(&dy(r))), "Dy mul {a} {b}");
            let s = a + b;
            let bb = s - a;
            let err = (a - (s - bb)) + (b - bb);
            ck!(dy(a).add(&dy(b)).eq(&dy(s).add(&dy(err))), "Dy add {a} {b}");
            ck!(q(a).mul(&q(b)).eq(&dy(a).mul(&dy(b)).to_q()), "Q mul {a} {b}");
            ck!(q(a).div(&q(b)).mul(&q(b)).eq(&q(a)), "Q div/mul {a} {b}");
            ck!(q(a).add(&q(b)).sub(&q(b)).eq(&q(a)), "Q add/sub {a} {b}");
            ck!(q(a).cmp(&q(b)) == a.partial_cmp(&b).unwrap(), "Q cmp {a} {b}");
            ck!(dy(a).cmp(&dy(b)) == a.partial_cmp(&b).unwrap(), "Dy cmp {a} {b}");
        }
    }
    ck!(Q::ratio(1, 3).add(&Q::ratio(1, 6)).eq(&Q::ratio(1, 2)), "1/3+1/6");
    ck!(Q::ratio(-7, 3).lt(&Q::ratio(-2, 1)), "-7/3 < -2");
    // float helpers
    ck!(succ(1.0) == 1.0 + f64::EPSILON && pred(1.0) == 1.0 - f64::EPSILON / 2.0, "succ/pred 1");
    ck!(succ(0.0) == 5e-324 && pred(0.0) == -5e-324 && succ(-5e-324) == 0.0, "succ/pred 0");
    ck!(succ(f64::MAX) == f64::INFINITY && pred(f64::NEG_INFINITY) == f64::NEG_INFINITY, "succ max");
    ck!(ulp(1.0) == f64::EPSILON && ulp(0.0) == 5e-324, "ulp");
    ck!(ulp_distance(-5e-324, 5e-324) == 2 && ulp_distance(1.0, succ(succ(1.0))) == 2, "ulp_distance");
    // series: R(0) = 1/120 within 2^-250
    let tiny = Q { n: Big::from_u64(1), d: Big::from_u64(1).shl(200) };
    ck!(series_r(0.0).to_q().sub(&Q::ratio(1, 120)).abs().lt(&tiny), "R(0)");
    // R(1) = e - 65/24, e to 60 digits
    let e60 = Q {
        n: Big::from_decimal("271828182845904523536028747135266249775724709369995957496697"),
        d: Big::from_decimal("100000000000000000000000000000000000000000000000000000000000"),
    };
    let small = Q { n: Big::from_u64(1), d: Big::from_decimal("1000000000000000000000000000000000000000000000000000000000") };
    ck!(series_r(1.0).to_q().sub(&e60.sub(&Q::ratio(65, 24))).abs().lt(&small), "R(1)");
    // e^x * e^-x = 1 through the series, small and large |x|
    for &x in &[0.5, 1.71, 1.72, 3.0, 17.25, 40.0, 300.0, 709.0, 744.0] {
        let p = exp_from_series(x).mul(&exp_from_series(-x));
        let rel = Q { n: Big::from_u64(1), d: Big::from_u64(1).shl(150) };
        ck!(p.sub(&Q::from_i64(1)).abs().lt(&rel), "exp({x})*exp(-{x}) != 1: {}", p.to_f64());
    }
    Ok(())
}

#[cfg(test)]
mod tests {
    #[test]
    fn selftest() {
        super::self_test().unwrap();
    }
}
