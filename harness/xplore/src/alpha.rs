//! Alphabets: order-complete query sets A(ends), shapes (non-decreasing end lists).

use exact::{pred, succ};

pub fn dedup_bits(mut v: Vec<f64>) -> Vec<f64> {
    let mut seen = std::collections::HashSet::new();
    v.retain(|x| seen.insert(x.to_bits()));
    v
}

/// total order used for sorting alphabets: numeric, -0.0 before +0.0, NaNs last
pub fn sort_total(v: &mut Vec<f64>) {
    v.sort_by(|a, b| a.total_cmp(b));
}

/// Order-complete alphabet for a list of (non-NaN) ends: every comparison outcome against
/// every distinct end value, both one-ulp neighbours of every end, >= 2 further interior
/// points of every open cell, and points beyond both extremes. Sorted ascending, no NaN,
/// de-duplicated on bits.
pub fn order_alphabet(ends: &[f64]) -> Vec<f64> {
    let mut e: Vec<f64> = ends.iter().cloned().filter(|x| !x.is_nan()).collect();
    e.sort_by(|a, b| a.partial_cmp(b).unwrap());
    e.dedup_by(|a, b| *a == *b); // numeric equality: -0.0 and +0.0 are one end value
    let mut a = vec![f64::NEG_INFINITY, -f64::MAX, f64::MAX, f64::INFINITY];
    if let (Some(&lo), Some(&hi)) = (e.first(), e.last()) {
        if let Some(c) = [lo - 1.0, lo * 2.0 - 1.0, lo - lo.abs() * 0.5 - 0.5].into_iter().find(|&c| c < lo && c > -f64::MAX) {
            a.push(c);
        }
        if let Some(c) = [hi + 1.0, hi * 2.0 + 1.0, hi + hi.abs() * 0.5 + 0.5].into_iter().find(|&c| c > hi && c < f64::MAX) {
            a.push(c);
        }
    }
    for &x in &e {
        a.push(x);
        if x == 0.0 {
            a.push(0.0);
            a.push(-0.0);
        }
        a.push(pred(x));
        a.push(succ(x));
    }
    for w in e.windows(2) {
        let (l, r) = (w[0], w[1]);
        let cands = [
            l * 0.5 + r * 0.5,
            l * 0.75 + r * 0.25,
            l + (r - l) * 0.25,
            if l.is_finite() { l + 1.0 } else { r - 1.0 },
            if l.is_finite() && l != 0.0 { l + l.abs() } else { 1.0 },
            if r.is_finite() { r - 1.0 } else { l + 1.0 },
            0.0,
            1e300,
            -1e300,
        ];
        let mut n = 0;
        for c in cands {
            if c > l && c < r && n < 2 && !a.iter().any(|y: &f64| y.to_bits() == c.to_bits()) {
                a.push(c);
                n += 1;
            }
        }
    }
    let mut a = dedup_bits(a.into_iter().filter(|x| !x.is_nan()).collect());
    sort_total(&mut a);
    a
}

/// all non-decreasing sequences of length 1..=max_len over `values` (values given ascending)
pub fn shapes(values: &[f64], max_len: usize) -> Vec<Vec<f64>> {
    fn rec(values: &[f64], from: usize, cur: &mut Vec<f64>, len: usize, out: &mut Vec<Vec<f64>>) {
        if cur.len() == len {
            out.push(cur.clone());
            return;
        }
        for i in from..values.len() {
            cur.push(values[i]);
            rec(values, i, cur, len, out);
            cur.pop();
        }
    }
    let mut out = vec![];
    for len in 1..=max_len {
        rec(values, 0, &mut vec![], len, &mut out);
    }
    out
}

/// the "nasty" end values of DESIGN 3.2 (ascending; -0.0 and +0.0 both present)
pub fn nasty_values() -> Vec<f64> {
    vec![
        f64::NEG_INFINITY,
        -f64::MAX,
        -1.0,
        -2.2250738585072014e-308,
        -0.0,
        0.0,
        5e-324,
        1.0,
        succ(1.0),
        1e300,
        f64::MAX,
        f64::INFINITY,
    ]
}

/// four NaN bit patterns (quiet +/-, payload +/-)
pub fn nans() -> [f64; 4] {
    [
        f64::NAN,
        -f64::NAN,
        f64::from_bits(0x7ff8_0000_0000_0001),
        f64::from_bits(0xfff0_0000_0000_0001),
    ]
}

/// reference segment index of direct evaluation: first i with ends[i] > x, else the last
pub fn ref_index(ends: &[f64], x: f64) -> usize {
    for (i, &e) in ends.iter().enumerate() {
        if e > x {
            return i;
        }
    }
    ends.len() - 1
}

/// de Bruijn sequence B(k, n) as indices 0..k (cyclic; the first n-1 symbols are appended so that every
/// n-window occurs in the linear sequence). Standard Lyndon-word construction.
pub fn debruijn(k: usize, n: usize) -> Vec<usize> {
    fn db(t: usize, p: usize, k: usize, n: usize, a: &mut Vec<usize>, seq: &mut Vec<usize>) {
        if t > n {
            if n % p == 0 {
                seq.extend_from_slice(&a[1..=p]);
            }
        } else {
            a[t] = a[t - p];
            db(t + 1, p, k, n, a, seq);
            for j in a[t - p] + 1..k {
                a[t] = j;
                db(t + 1, t, k, n, a, seq);
            }
        }
    }
    if k == 0 {
        return vec![];
    }
    let mut a = vec![0usize; k * n + 1];
    let mut seq = vec![];
    db(1, 1, k, n, &mut a, &mut seq);
    let head: Vec<usize> = seq.iter().cloned().take(n - 1).collect();
    seq.extend(head);
    seq
}

/// reduced alphabet for long histories: below the first end, every distinct end, one interior point per cell, above the last end
pub fn reduced_alphabet(ends: &[f64]) -> Vec<f64> {
    let mut e: Vec<f64> = ends.to_vec();
    e.sort_by(|a, b| a.partial_cmp(b).unwrap());
    e.dedup_by(|a, b| *a == *b);
    let mut a = vec![e[0] - 1.0];
    for (i, &x) in e.iter().enumerate() {
        a.push(x);
        if i + 1 < e.len() {
            a.push(x * 0.5 + e[i + 1] * 0.5);
        }
    }
    a.push(e[e.len() - 1] + 1.0);
    a
}

/// strictly increasing list 1..n
pub fn iota(n: usize) -> Vec<f64> {
    (1..=n).map(|i| i as f64).collect()
}
/// sizes around typical thresholds (powers of two and their neighbours, decimal round numbers)
pub fn threshold_sizes(thorough: bool) -> Vec<usize> {
    if thorough {
        vec![7, 8, 9, 10, 11, 12, 15, 16, 17, 20, 31, 32, 33, 50, 63, 64, 65, 100, 127, 128, 129, 200, 255, 256, 257, 1000, 1025]
    } else {
        vec![8, 9, 10, 16, 17, 32, 33, 64, 65, 100, 129, 257]
    }
}

/// big end lists around size thresholds: 1..n, centred lists containing +0.0 / -0.0, and variants with duplicate runs;
/// for a few sizes also every list with a single duplicated end at each position
pub fn big_shapes(thorough: bool, cap: usize) -> Vec<Vec<f64>> {
    let mut out = vec![];
    for n in threshold_sizes(thorough) {
        if n > cap {
            continue;
        }
        let base = iota(n);
        out.push(base.clone());
        let centred: Vec<f64> = (0..n).map(|i| i as f64 - (n / 2) as f64).collect(); // contains +0.0
        out.push(centred.clone());
        out.push(centred.iter().map(|&v| if v == 0.0 { -0.0 } else { v }).collect());
        for (period, run) in [(5usize, 2usize), (7, 3), (11, 5)] {
            let mut d = base.clone();
            let mut i = period;
            while i + run <= n {
                for k in 1..run {
                    d[i + k] = d[i];
                }
                i += period + run;
            }
            d.sort_by(|a, b| a.partial_cmp(b).unwrap());
            out.push(d);
        }
        let mut d = base.clone();
        for i in n / 3..(n / 3 + n / 4).min(n) {
            d[i] = d[n / 3];
        }
        out.push(d);
        if n >= 64 {
            // one end far away from all the others (differences x - first / last - first lose every bit of x)
            let mut h = vec![-1e19];
            h.extend((0..n - 1).map(|i| i as f64));
            out.push(h);
            let mut h: Vec<f64> = (0..n - 1).map(|i| i as f64).collect();
            h.push(1e19);
            out.push(h);
            let mut h = vec![-10.0];
            h.extend((0..n - 2).map(|i| i as f64 * 0.0625));
            let last = *h.last().unwrap();
            h.push(last);
            out.push(h);
        }
    }
    for n in [33usize, 34, 65, 66].into_iter().chain(if thorough { vec![100usize, 129] } else { vec![] }) {
        if n > cap {
            continue;
        }
        for pos in 1..n {
            let mut d = iota(n);
            d[pos] = d[pos - 1];
            out.push(d);
        }
    }
    out
}
