//! Stateless choice-tree explorer (odometer DFS with prefix replay), parallel over
//! top-level units; statistics, evidence and replay files; order-complete alphabets.
//!
//! A check is a list of `Phase`s. A phase body is run once per *execution* (one complete
//! root-to-leaf path of its choice tree = one concrete input or one concrete history);
//! `cx.choose(k)` is a choice point. The explorer enumerates every path: after a run it
//! advances the deepest choice that still has an untried alternative and re-runs the body
//! with that prefix forced (choice 0 = the simplest alternative is the default beyond the
//! prefix). A forced prefix that meets a choice point of different width is a replay
//! divergence = machinery failure (exit 2), never a verdict.

use serde_json::{json, Map, Value};
use std::collections::BTreeMap;
use std::panic::{catch_unwind, AssertUnwindSafe};
use std::sync::atomic::{AtomicBool, AtomicUsize, Ordering};
use std::sync::Mutex;
use std::time::Instant;

pub mod alpha;
pub use alpha::*;

// ------------------------------------------------------------------ failures
#[derive(Clone, Debug)]
pub struct Fail {
    pub what: String,
    pub detail: Value,
    /// key of the known-finding predicate this failing input satisfies, if any
    pub finding: Option<&'static str>,
}
impl Fail {
    pub fn new(what: impl Into<String>, detail: Value) -> Fail {
        Fail { what: what.into(), detail, finding: None }
    }
    pub fn with_finding(mut self, k: &'static str) -> Fail {
        self.finding = Some(k);
        self
    }
}
pub type Verdict = Result<(), Fail>;

/// run subject code; a panic becomes Err(message)
pub fn guard<T>(f: impl FnOnce() -> T) -> Result<T, String> {
    catch_unwind(AssertUnwindSafe(f)).map_err(|e| {
        if let Some(s) = e.downcast_ref::<&str>() {
            s.to_string()
        } else if let Some(s) = e.downcast_ref::<String>() {
            s.clone()
        } else {
            "panic (non-string payload)".into()
        }
    })
}
pub fn silence_panics() {
    std::panic::set_hook(Box::new(|_| {}));
}
pub fn machinery(msg: &str) -> ! {
    println!("MACHINERY-FAILURE: {msg}");
    eprintln!("MACHINERY-FAILURE: {msg}");
    std::process::exit(2);
}

/// f64 rendered for JSON (NaN/inf are not JSON numbers): "1.5e0/0x3ff8000000000000"
pub fn fj(x: f64) -> Value {
    Value::String(format!("{:e}/{:#018x}", x, x.to_bits()))
}
pub fn fjs(xs: &[f64]) -> Value {
    Value::Array(xs.iter().map(|&x| fj(x)).collect())
}

// ------------------------------------------------------------------ Cx
pub struct Cx {
    forced: Vec<u32>,
    forced_widths: Vec<u32>, // widths seen at the forced positions in the previous run (0 = unknown)
    trail: Vec<(u32, u32)>,
    nontrivial: bool,
    classes: Vec<u64>,
    evals: u64,
    max_ratio: f64,
    sampling: bool,
    sample: Option<Value>,
    pub tier_thorough: bool,
    pub seed: u64,
}

impl Cx {
    fn new(nclasses: usize, thorough: bool, seed: u64) -> Cx {
        Cx {
            forced: vec![],
            forced_widths: vec![],
            trail: vec![],
            nontrivial: false,
            classes: vec![0; nclasses],
            evals: 0,
            max_ratio: 0.0,
            sampling: false,
            sample: None,
            tier_thorough: thorough,
            seed,
        }
    }
    /// a choice point with k alternatives (k >= 1); returns the alternative taken on this execution
    pub fn choose(&mut self, k: usize) -> usize {
        assert!(k >= 1, "choice point with no alternatives");
        let pos = self.trail.len();
        let c = if pos < self.forced.len() {
            let c = self.forced[pos];
            if c as usize >= k {
                machinery(&format!("replay divergence: forced choice {c} at depth {pos} but only {k} alternatives"));
            }
            let w = self.forced_widths[pos];
            if w != 0 && w as usize != k {
                machinery(&format!("replay divergence: width {k} at depth {pos}, previously {w}"));
            }
            c
        } else {
            0
        };
        self.trail.push((c, k as u32));
        c as usize
    }
    pub fn pick<'a, T>(&mut self, xs: &'a [T]) -> &'a T {
        let i = self.choose(xs.len());
        &xs[i]
    }
    pub fn flag(&mut self) -> bool {
        self.choose(2) == 1
    }
    pub fn nontrivial(&mut self) {
        self.nontrivial = true;
    }
    pub fn class(&mut self, id: usize) {
        self.classes[id] += 1;
    }
    pub fn evals(&mut self, n: u64) {
        self.evals += n;
    }
    /// record |error| / tolerance of one comparison (the maximum is reported in the evidence)
    pub fn ratio(&mut self, r: f64) {
        if r > self.max_ratio {
            self.max_ratio = r;
        }
    }
    pub fn sampling(&self) -> bool {
        self.sampling
    }
    pub fn sample(&mut self, v: Value) {
        if self.sampling && self.sample.is_none() {
            self.sample = Some(compact(v));
        }
    }
    pub fn choices(&self) -> Vec<u32> {
        self.trail.iter().map(|t| t.0).collect()
    }
}

/// Sample descriptions go into the evidence file, which has to stay small: an array of more than 48 elements
/// (a 40000-knot list, say) is recorded as its length with its first and last eight elements.
pub fn compact(v: Value) -> Value {
    match v {
        Value::Array(a) if a.len() > 48 => {
            let n = a.len();
            let first: Vec<Value> = a[..8].iter().cloned().map(compact).collect();
            let last: Vec<Value> = a[n - 8..].iter().cloned().map(compact).collect();
            json!({"len": n, "first": first, "last": last})
        }
        Value::Array(a) => Value::Array(a.into_iter().map(compact).collect()),
        Value::Object(m) => Value::Object(m.into_iter().map(|(k, x)| (k, compact(x))).collect()),
        Value::String(t) if t.len() > 2000 => {
            let cut = (0..=2000).rev().find(|&i| t.is_char_boundary(i)).unwrap_or(0);
            Value::String(format!("{}… ({} bytes)", &t[..cut], t.len()))
        }
        x => x,
    }
}

// ------------------------------------------------------------------ phases
pub type Body = Box<dyn Fn(usize, &mut Cx) -> Verdict + Sync + Send>;

pub struct Phase {
    pub name: &'static str,
    /// number of top-level units (the first choice level, explored in parallel)
    pub units: usize,
    pub body: Body,
    /// outcome classes; `true` = must be populated (an empty required class is a machinery failure)
    pub classes: Vec<(&'static str, bool)>,
    /// human-readable bound description for the evidence file
    pub bounds: Value,
    /// parallel work is split by (unit, first `split` choices) — 0 = by unit only
    pub split: usize,
}

#[derive(Default, Clone)]
pub struct Stats {
    pub states: u64,
    pub transitions: u64,
    pub executions: u64,
    pub nontrivial: u64,
    pub evals: u64,
    pub max_ratio: f64,
    pub classes: Vec<u64>,
    pub samples: Vec<Value>,
    /// representative executions (unit, choices) collected for the call-order pass
    pub reps: Vec<(usize, Vec<u32>)>,
}

pub struct Violation {
    pub phase: &'static str,
    pub unit: usize,
    pub choices: Vec<u32>,
    pub fail: Fail,
    /// call-order pass: the execution that was run immediately before this one on the same thread
    pub preceded_by: Option<(usize, Vec<u32>)>,
    /// ambient pass: (name of the ambient activity, whether its objects were still alive) under which the execution fails
    pub ambient: Option<(&'static str, bool)>,
}

/// An ambient activity: other use of the library's public API on the same thread, whose objects are either kept alive
/// while the executions of a phase run ("held") or dropped before they run. Pure operations must not care.
#[derive(Clone, Copy)]
pub struct Ambient {
    pub name: &'static str,
    pub what: &'static str,
    pub enter: fn() -> Box<dyn std::any::Any>,
}
static AMBIENT: std::sync::OnceLock<Vec<Ambient>> = std::sync::OnceLock::new();
/// register the ambient alphabet (once, before any check runs)
pub fn set_ambient(v: Vec<Ambient>) {
    let _ = AMBIENT.set(v);
}
pub fn ambient_alphabet() -> &'static [Ambient] {
    AMBIENT.get().map(|v| v.as_slice()).unwrap_or(&[])
}

pub struct PhaseReport {
    pub name: &'static str,
    pub stats: Stats,
    pub wall_s: f64,
    pub exhaustive: bool,
    pub violation: Option<Violation>,
    pub known_hits: BTreeMap<&'static str, (u64, Value)>,
    pub units: usize,
    /// call-order pass: number of representative executions R (every ordered pair = R*R two-call sequences)
    pub order_reps: usize,
    pub order_pairs: u64,
    /// ambient pass: "full" (whole tree re-explored) or "representatives", number of (activity, held/dropped) passes, executions run
    pub ambient_mode: &'static str,
    pub ambient_passes: usize,
    pub ambient_executions: u64,
}

pub struct Config {
    pub thorough: bool,
    pub seed: u64,
    pub threads: usize,
    /// wall-clock cap per phase in seconds (hitting it is reported, never a verdict)
    pub cap_s: f64,
    /// known-finding keys listed for this property in known_findings.json
    pub known: Vec<String>,
    /// number of representative executions per phase for the call-order pass (0 = off)
    pub order_reps: usize,
    /// directory for crash breadcrumbs: every worker records the work item it is about to explore, so that a process crash
    /// (stack overflow, abort) inside subject code can be traced to a handful of items by bin/check
    pub crumb_dir: Option<String>,
    /// run the ambient pass (every phase again under every registered ambient activity)
    pub ambient: bool,
    /// CPU-seconds one phase may spend in the ambient pass (the check's budget divided by its number of phases)
    pub ambient_budget: f64,
}

fn run_one(body: &Body, unit: usize, cx: &mut Cx) -> Verdict {
    cx.trail.clear();
    cx.nontrivial = false;
    cx.sample = None;
    (body)(unit, cx)
}

/// advance the odometer: returns false when the tree below this unit is exhausted
fn advance(cx: &mut Cx, floor: usize) -> bool {
    let mut t = std::mem::take(&mut cx.trail);
    while t.len() > floor {
        let (c, w) = t.pop().unwrap();
        if c + 1 < w {
            t.push((c + 1, w));
            cx.forced = t.iter().map(|x| x.0).collect();
            cx.forced_widths = t.iter().map(|x| x.1).collect();
            return true;
        }
    }
    false
}

/// enumerate the work items (unit, fixed prefix) of a phase by a pre-pass over the first `split` choice levels
fn work_items(ph: &Phase, cfg: &Config) -> (Vec<(usize, Vec<u32>)>, u64) {
    let mut items = vec![];
    let mut nodes = 0u64;
    for unit in 0..ph.units {
        if ph.split == 0 {
            items.push((unit, vec![]));
            continue;
        }
        let mut cx = Cx::new(ph.classes.len(), cfg.thorough, cfg.seed);
        let mut first = true;
        loop {
            let forced_len = cx.forced.len();
            let _ = run_one(&ph.body, unit, &mut cx); // verdict ignored here: the item is explored again below
            cx.trail.truncate(ph.split);
            let len = cx.trail.len();
            nodes += if first { len as u64 } else { (len + 1 - forced_len.min(len + 1)) as u64 };
            first = false;
            items.push((unit, cx.choices()));
            if !advance(&mut cx, 0) {
                break;
            }
        }
    }
    (items, nodes)
}

pub fn run_phase(ph: &Phase, cfg: &Config) -> PhaseReport {
    let t0 = Instant::now();
    let (items, prefix_nodes) = work_items(ph, cfg);
    let next = AtomicUsize::new(0);
    let min_bad = AtomicUsize::new(usize::MAX);
    let capped = AtomicBool::new(false);
    type Known = BTreeMap<&'static str, (u64, Value)>;
    let merged: Mutex<(Stats, Option<(usize, Violation)>, Known)> =
        Mutex::new((Stats { classes: vec![0; ph.classes.len()], ..Default::default() }, None, BTreeMap::new()));
    let suspects: Mutex<Option<(usize, Violation)>> = Mutex::new(None);
    let nthreads = cfg.threads.max(1).min(items.len().max(1));
    let sample_item = if !items.is_empty() { (cfg.seed as usize).wrapping_mul(2654435761) % items.len() } else { 0 };
    let tids = AtomicUsize::new(0);
    std::thread::scope(|s| {
        for _ in 0..nthreads {
            s.spawn(|| {
                let tid = tids.fetch_add(1, Ordering::SeqCst);
                let crumb = cfg.crumb_dir.as_ref().and_then(|d| std::fs::OpenOptions::new().create(true).write(true).open(format!("{d}/t{tid}")).ok());
                let mut st = Stats { classes: vec![0; ph.classes.len()], ..Default::default() };
                let mut viol: Option<(usize, Violation)> = None;
                let mut suspect: Option<(usize, Violation)> = None;
                let mut suspects_checked = 0;
                let mut all_suspect = true;
                let mut known: Known = BTreeMap::new();
                loop {
                    let it = next.fetch_add(1, Ordering::SeqCst);
                    if it >= items.len() || it > min_bad.load(Ordering::SeqCst) {
                        break;
                    }
                    if let Some(f) = &crumb {
                        use std::os::unix::fs::FileExt;
                        let rec = format!("{:<40}\n", format!("{}\t{}", ph.name, it));
                        let _ = f.write_all_at(rec.as_bytes(), 0);
                    }
                    let (unit, fixed) = (items[it].0, &items[it].1);
                    let floor = fixed.len();
                    let mut cx = Cx::new(ph.classes.len(), cfg.thorough, cfg.seed);
                    cx.forced = fixed.clone();
                    cx.forced_widths = vec![0; floor];
                    let mut first = true;
                    let mut item_samples = 0;
                    let mut count_in_item = 0u64;
                    let mut item_reps = 0;
                    let want_samples = it == sample_item || it == 0 || it + 1 == items.len();
                    loop {
                        cx.sampling = want_samples && item_samples < 2 && count_in_item < 5000;
                        let forced_len = cx.forced.len();
                        let v = run_one(&ph.body, unit, &mut cx);
                        let len = cx.trail.len();
                        // new tree nodes on this path: below the fixed prefix on the first run, below the advanced position afterwards
                        let newn = if first { len.saturating_sub(floor) as u64 } else { (len + 1).saturating_sub(forced_len) as u64 };
                        st.states += newn;
                        st.transitions += newn;
                        st.executions += 1;
                        count_in_item += 1;
                        if cx.nontrivial {
                            st.nontrivial += 1;
                        }
                        if let Some(sv) = cx.sample.take() {
                            if st.samples.len() < 4 && (first || (cx.nontrivial && count_in_item > cfg.seed % 97)) {
                                st.samples.push(json!({"unit": unit, "choices": cx.choices(), "case": sv}));
                                item_samples += 1;
                            }
                        }
                        first = false;
                        if count_in_item.is_power_of_two() && item_reps < 20 {
                            st.reps.push((unit, cx.choices()));
                            item_reps += 1;
                        }
                        if let Err(f) = v {
                            let is_known = f.finding.map_or(false, |k| cfg.known.iter().any(|x| x == k));
                            if is_known {
                                let k = f.finding.unwrap();
                                let e = known.entry(k).or_insert((0, json!({"what": f.what, "detail": f.detail, "unit": unit, "choices": cx.choices()})));
                                e.0 += 1;
                            } else {
                                // does the same execution fail when run alone in a fresh thread? if not, it depends on the calls made
                                // before it (hidden state): remember it as a suspect and keep exploring; the call-order pass below
                                // re-derives it as a deterministic two-call sequence
                                let ch = cx.choices();
                                // (the fresh-thread test is made for the first few failures of a worker; once they all turned out to be
                                // history-dependent, later failures of the same worker are taken to be of the same kind)
                                let alone_ok = if suspects_checked < 4 {
                                    suspects_checked += 1;
                                    let ok = std::thread::scope(|s2| s2.spawn(|| run_single_q(ph, unit, &ch, cfg.thorough, cfg.seed).0.is_ok()).join().unwrap_or(false));
                                    all_suspect &= ok;
                                    ok
                                } else {
                                    all_suspect
                                };
                                if alone_ok {
                                    let mut f = f;
                                    f.what = format!("{} [history-dependent: the same execution alone in a fresh thread satisfies the property]", f.what);
                                    if suspect.as_ref().map_or(true, |(i0, _)| it < *i0) {
                                        suspect = Some((it, Violation { phase: ph.name, unit, choices: ch, fail: f, preceded_by: None, ambient: None }));
                                    }
                                } else {
                                    min_bad.fetch_min(it, Ordering::SeqCst);
                                    viol = Some((it, Violation { phase: ph.name, unit, choices: ch, fail: f, preceded_by: None, ambient: None }));
                                    break;
                                }
                            }
                        }
                        if !advance(&mut cx, floor) {
                            break;
                        }
                        if st.executions & 0xfff == 0 {
                            if t0.elapsed().as_secs_f64() > cfg.cap_s {
                                capped.store(true, Ordering::SeqCst);
                                break;
                            }
                            if it > min_bad.load(Ordering::SeqCst) {
                                break;
                            }
                        }
                    }
                    st.evals += cx.evals;
                    st.max_ratio = st.max_ratio.max(cx.max_ratio);
                    for (i, c) in cx.classes.iter().enumerate() {
                        st.classes[i] += c;
                    }
                    if viol.is_some() || capped.load(Ordering::SeqCst) {
                        break;
                    }
                }
                let mut g = merged.lock().unwrap();
                g.0.states += st.states;
                g.0.transitions += st.transitions;
                g.0.executions += st.executions;
                g.0.nontrivial += st.nontrivial;
                g.0.evals += st.evals;
                g.0.max_ratio = g.0.max_ratio.max(st.max_ratio);
                for (i, c) in st.classes.iter().enumerate() {
                    g.0.classes[i] += c;
                }
                for sv in st.samples {
                    if g.0.samples.len() < 4 {
                        g.0.samples.push(sv);
                    }
                }
                g.0.reps.extend(st.reps);
                if let Some(v) = viol {
                    let better = match &g.1 {
                        None => true,
                        Some(o) => v.0 < o.0,
                    };
                    if better {
                        g.1 = Some(v);
                    }
                }
                for (k, (n, ex)) in known {
                    let e = g.2.entry(k).or_insert((0, ex));
                    e.0 += n;
                }
                drop(g);
                if let Some(sv) = suspect {
                    let mut sg = suspects.lock().unwrap();
                    if sg.as_ref().map_or(true, |o| sv.0 < o.0) {
                        *sg = Some(sv);
                    }
                }
            });
        }
    });
    let (mut stats, violation, known_hits) = merged.into_inner().unwrap();
    // the root of the phase's tree, its unit children, and the nodes of the split prefix levels
    stats.states += 1 + ph.units as u64 + prefix_nodes;
    stats.transitions += ph.units as u64 + prefix_nodes;
    let capped = capped.load(Ordering::SeqCst);
    let mut violation = violation;
    // ---- call-order pass: every ordered pair (i, j) of R representative executions is run as the two-call sequence
    // "i then j" on one thread; both calls are judged by the phase's own oracle. Pure operations must not care about the
    // call before them: a result that depends on it (thread-local scratch, memo, cache) shows up as a violation of j.
    let mut order_reps = 0usize;
    let mut order_pairs = 0u64;
    let suspect = suspects.into_inner().unwrap();
    let history_dependent = violation.is_none() && suspect.is_some();
    if (violation.is_none() || history_dependent) && !capped && cfg.order_reps > 0 {
        let must_keep = suspect.as_ref().map(|(_, v)| (v.unit, v.choices.clone()));
        let mut reps = stats.reps.clone();
        reps.sort();
        reps.dedup();
        // keep the pass within a CPU budget: R*R two-call sequences at the phase's measured cost per execution
        let per_exec = (t0.elapsed().as_secs_f64() * nthreads as f64 / (stats.executions.max(1) as f64)).max(1e-7);
        let budget = if cfg.thorough { 480.0 } else { 64.0 };
        let r_budget = ((budget / (2.0 * per_exec)).sqrt() as usize).max(8);
        let r = cfg.order_reps.min(reps.len()).min(r_budget);
        let mut picked: Vec<(usize, Vec<u32>)> = if reps.len() <= r { reps } else { (0..r).map(|k| reps[k * reps.len() / r].clone()).collect() };
        if let Some(k) = must_keep {
            if !picked.contains(&k) {
                picked.push(k);
            }
        }
        order_reps = picked.len();
        let nexti = AtomicUsize::new(0);
        let found: Mutex<Option<(usize, Violation)>> = Mutex::new(None);
        let pairs = std::sync::atomic::AtomicU64::new(0);
        std::thread::scope(|s| {
            for _ in 0..cfg.threads.max(1).min(picked.len().max(1)) {
                s.spawn(|| loop {
                    let i = nexti.fetch_add(1, Ordering::SeqCst);
                    // rows are handed out in increasing order: a row beyond the best failing row so far cannot improve on it
                    if i >= picked.len() || found.lock().unwrap().as_ref().map_or(false, |(k, _)| *k < picked.len() * picked.len() && i > *k / picked.len()) {
                        break;
                    }
                    // one fresh thread per row i; inside it every j is run as "i then j". State left behind by earlier sequences of the
                    // row could leak into later ones, so a failing (i, j) is confirmed in a thread of its own before it is reported:
                    // the reported pair is self-contained (replayable).
                    let row = std::thread::scope(|s2| {
                        std::thread::Builder::new()
                            .stack_size(1 << 20)
                            .spawn_scoped(s2, || {
                                let mut unconfirmed: Option<(usize, Fail)> = None;
                                for j in 0..picked.len() {
                                    let _ = run_single_q(ph, picked[i].0, &picked[i].1, cfg.thorough, cfg.seed);
                                    let v2 = run_single_q(ph, picked[j].0, &picked[j].1, cfg.thorough, cfg.seed).0;
                                    pairs.fetch_add(1, Ordering::Relaxed);
                                    if let Err(f) = v2 {
                                        if f.finding.map_or(false, |k| cfg.known.iter().any(|x| x == k)) {
                                            continue;
                                        }
                                        let confirmed = std::thread::scope(|s3| {
                                            s3.spawn(|| {
                                                let _ = run_single_q(ph, picked[i].0, &picked[i].1, cfg.thorough, cfg.seed);
                                                run_single_q(ph, picked[j].0, &picked[j].1, cfg.thorough, cfg.seed).0.is_err()
                                            })
                                            .join()
                                            .unwrap_or(false)
                                        });
                                        if confirmed {
                                            return (Some((j, f)), unconfirmed);
                                        } else if unconfirmed.is_none() {
                                            unconfirmed = Some((j, f));
                                        }
                                    }
                                }
                                (None, unconfirmed)
                            })
                            .expect("spawn")
                            .join()
                            .unwrap_or((None, None))
                    });
                    let (hit, confirmed) = match row {
                        (Some(h), _) => (Some(h), true),
                        (None, Some(h)) => (Some(h), false),
                        _ => (None, false),
                    };
                    if let Some((j, mut f)) = hit {
                        let mut g = found.lock().unwrap();
                        // confirmed pairs take precedence over unconfirmed ones; among equals the smallest (i, j)
                        let key = i * picked.len() + j + if confirmed { 0 } else { picked.len() * picked.len() };
                        if g.as_ref().map_or(true, |(k, _)| key < *k) {
                            f.what = format!("{} [in the call-order pass: only after another call on the same thread{}]", f.what, if confirmed { "" } else { "; NOT reproduced by the two calls alone" });
                            *g = Some((key, Violation { phase: ph.name, unit: picked[j].0, choices: picked[j].1.clone(), fail: f, preceded_by: Some(picked[i].clone()), ambient: None }));
                        }
                    }
                });
            }
        });
        order_pairs = pairs.load(Ordering::SeqCst);
        if let Some((_, v)) = found.into_inner().unwrap() {
            violation = Some((usize::MAX, v));
        }
    }
    if violation.is_none() {
        // a suspect that the call-order pass could not re-derive is still a real observation
        violation = suspect;
    }
    // ---- ambient pass: the phase is explored again under every ambient activity (other use of the public API on the same
    // thread), once with the activity's objects alive and once after they were dropped. Every execution is judged by the
    // phase's own oracle, which it satisfied alone: a failure means the operation is not a function of its arguments.
    let mut ambient_mode = "off";
    let mut ambient_passes = 0usize;
    let mut ambient_executions = 0u64;
    let amb = ambient_alphabet();
    if violation.is_none() && !capped && cfg.ambient && !amb.is_empty() {
        let passes: Vec<(usize, bool)> = (0..amb.len()).flat_map(|a| [(a, true), (a, false)]).collect();
        let cpu_main = t0.elapsed().as_secs_f64() * nthreads as f64;
        let per_exec = (cpu_main / (stats.executions.max(1) as f64)).max(2e-8);
        let budget = cfg.ambient_budget;
        let full = stats.executions as f64 * per_exec * passes.len() as f64 <= budget;
        // jobs: (pass, chunk of the work list); every job runs in a thread of its own so that the activity starts from a clean thread
        let mut reps = std::mem::take(&mut stats.reps);
        reps.sort();
        reps.dedup();
        let work: Vec<(usize, Vec<u32>)> = if full {
            items.clone()
        } else {
            let n = ((budget / (passes.len() as f64 * per_exec)) as usize).max(16).min(reps.len());
            if reps.len() <= n { reps } else { (0..n).map(|k| reps[k * reps.len() / n].clone()).collect() }
        };
        ambient_mode = if full { "full" } else { "representatives" };
        ambient_passes = passes.len();
        let chunks = cfg.threads.max(1).min(work.len().max(1));
        let jobs: Vec<(usize, usize)> = (0..passes.len()).flat_map(|p| (0..chunks).map(move |c| (p, c))).collect();
        let nextj = AtomicUsize::new(0);
        let execs = std::sync::atomic::AtomicU64::new(0);
        // (key, violation): key orders by pass, then position in the work list; confirmed failures first
        let found: Mutex<Option<(usize, Violation)>> = Mutex::new(None);
        let wl = work.len().max(1);
        let unconf = passes.len() * wl;
        std::thread::scope(|s| {
            for _ in 0..cfg.threads.max(1).min(jobs.len().max(1)) {
                s.spawn(|| loop {
                    let ji = nextj.fetch_add(1, Ordering::SeqCst);
                    if ji >= jobs.len() {
                        break;
                    }
                    let (p, c) = jobs[ji];
                    let (a, held) = passes[p];
                    let (lo, hi) = (c * work.len() / chunks, (c + 1) * work.len() / chunks);
                    if found.lock().unwrap().as_ref().map_or(false, |(k, _)| *k < p * wl + lo) {
                        continue;
                    }
                    let hit: Option<(usize, Vec<u32>, Fail, bool)> = std::thread::scope(|s2| {
                        std::thread::Builder::new()
                            .stack_size(1 << 21)
                            .spawn_scoped(s2, || {
                                let g = (amb[a].enter)();
                                let _keep = if held { Some(g) } else { drop(g); None };
                                let mut n = 0u64;
                                let mut out = None;
                                'w: for w in lo..hi {
                                    let (unit, fixed) = (work[w].0, &work[w].1);
                                    let mut cx = Cx::new(ph.classes.len(), cfg.thorough, cfg.seed);
                                    cx.forced = fixed.clone();
                                    cx.forced_widths = vec![0; fixed.len()];
                                    loop {
                                        let v = run_one(&ph.body, unit, &mut cx);
                                        n += 1;
                                        if let Err(f) = v {
                                            if !f.finding.map_or(false, |k| cfg.known.iter().any(|x| x == k)) {
                                                let ch = cx.choices();
                                                // confirm: the activity and this one execution alone, in a fresh thread
                                                let confirmed = std::thread::scope(|s3| {
                                                    s3.spawn(|| {
                                                        let g = (amb[a].enter)();
                                                        let _keep = if held { Some(g) } else { drop(g); None };
                                                        run_single_q(ph, unit, &ch, cfg.thorough, cfg.seed).0.is_err()
                                                    })
                                                    .join()
                                                    .unwrap_or(false)
                                                });
                                                out = Some((w, ch, f, confirmed));
                                                break 'w;
                                            }
                                        }
                                        if !full || !advance(&mut cx, fixed.len()) {
                                            break;
                                        }
                                        if n & 0x3ff == 0 && found.lock().unwrap().as_ref().map_or(false, |(k, _)| *k < p * wl + lo) {
                                            break 'w;
                                        }
                                    }
                                }
                                execs.fetch_add(n, Ordering::Relaxed);
                                out
                            })
                            .expect("spawn")
                            .join()
                            .unwrap_or(None)
                    });
                    if let Some((w, ch, mut f, confirmed)) = hit {
                        let key = p * wl + w + if confirmed { 0 } else { unconf };
                        let mut g = found.lock().unwrap();
                        if g.as_ref().map_or(true, |(k, _)| key < *k) {
                            f.what = format!(
                                "{} [in the ambient pass: the same execution alone satisfies the property; it fails {} {} on the same thread{}]",
                                f.what,
                                if held { "while the objects of this activity are alive:" } else { "after this activity (its objects already dropped):" },
                                amb[a].what,
                                if confirmed { "" } else { "; NOT reproduced by the activity and this execution alone" }
                            );
                            *g = Some((key, Violation { phase: ph.name, unit: work[w].0, choices: ch, fail: f, preceded_by: None, ambient: Some((amb[a].name, held)) }));
                        }
                    }
                });
            }
        });
        ambient_executions = execs.load(Ordering::SeqCst);
        if let Some((_, v)) = found.into_inner().unwrap() {
            violation = Some((usize::MAX, v));
        }
    }
    PhaseReport {
        name: ph.name,
        stats,
        wall_s: t0.elapsed().as_secs_f64(),
        exhaustive: !capped && violation.is_none(),
        violation: violation.map(|v| v.1),
        known_hits,
        units: ph.units,
        order_reps,
        order_pairs,
        ambient_mode,
        ambient_passes,
        ambient_executions,
    }
}

fn run_single_q(ph: &Phase, unit: usize, choices: &[u32], thorough: bool, seed: u64) -> (Verdict, Vec<u32>) {
    let mut cx = Cx::new(ph.classes.len(), thorough, seed);
    cx.forced = choices.to_vec();
    cx.forced_widths = vec![0; choices.len()];
    let v = run_one(&ph.body, unit, &mut cx);
    (v, cx.choices())
}

/// explore one work item on the calling thread, recording every execution in `crumb` before it is run (crash localisation)
pub fn run_item(ph: &Phase, thorough: bool, seed: u64, item: usize, crumb: &str) -> i32 {
    use std::os::unix::fs::FileExt;
    let cfg = Config { thorough, seed, threads: 1, cap_s: 1e9, known: vec![], order_reps: 0, crumb_dir: None, ambient: false, ambient_budget: 0.0 };
    let (items, _) = work_items(ph, &cfg);
    let Some((unit, fixed)) = items.get(item).cloned() else { machinery("item index out of range") };
    let f = std::fs::OpenOptions::new().create(true).write(true).truncate(true).open(crumb).unwrap_or_else(|e| machinery(&format!("crumb file: {e}")));
    let mut cx = Cx::new(ph.classes.len(), thorough, seed);
    let floor = fixed.len();
    cx.forced = fixed.clone();
    cx.forced_widths = vec![0; floor];
    let mut n = 0u64;
    loop {
        // the choices of the coming execution are not known before it runs: record the forced prefix (the rest defaults to 0)
        let rec = format!("{:<4000}\n", json!({"unit": unit, "choices": cx.forced}).to_string());
        let _ = f.write_all_at(rec.as_bytes(), 0);
        let _ = run_one(&ph.body, unit, &mut cx);
        n += 1;
        if !advance(&mut cx, floor) {
            break;
        }
    }
    println!("item {item} of phase {}: {n} executions, no crash", ph.name);
    0
}

/// run exactly one execution (for replay): returns the verdict and the trail taken
pub fn run_single(ph: &Phase, unit: usize, choices: &[u32], thorough: bool, seed: u64) -> (Verdict, Vec<u32>) {
    let mut cx = Cx::new(ph.classes.len(), thorough, seed);
    cx.forced = choices.to_vec();
    cx.forced_widths = vec![0; choices.len()];
    cx.sampling = true;
    let v = run_one(&ph.body, unit, &mut cx);
    (v, cx.choices())
}

// ------------------------------------------------------------------ check driver
pub struct Check {
    pub id: &'static str,
    pub rule: String,
    pub assumptions: Vec<String>,
    pub phases: Vec<Phase>,
    /// extra key/values for coverage (filled by the check, e.g. engine B part files)
    pub extra: Map<String, Value>,
    /// negative controls and oracle self-tests: Err = machinery failure
    pub controls: Vec<(&'static str, Box<dyn Fn() -> Result<(), String>>)>,
}

pub struct Outcome {
    pub exit: i32,
}

fn hash_hex(s: &str) -> String {
    // FNV-1a 64
    let mut h: u64 = 0xcbf29ce484222325;
    for b in s.bytes() {
        h ^= b as u64;
        h = h.wrapping_mul(0x100000001b3);
    }
    format!("{:016x}", h)
}

pub struct KnownFile {
    pub known: Vec<(String, String, String)>, // (property, key, text)
}
pub fn load_known(path: &str) -> KnownFile {
    let mut out = vec![];
    if let Ok(s) = std::fs::read_to_string(path) {
        let v: Value = serde_json::from_str(&s).unwrap_or_else(|e| machinery(&format!("known_findings.json: {e}")));
        if let Some(a) = v.get("known").and_then(|x| x.as_array()) {
            for e in a {
                out.push((
                    e["property"].as_str().unwrap_or("").to_string(),
                    e["key"].as_str().unwrap_or("").to_string(),
                    e["what"].as_str().unwrap_or("").to_string(),
                ));
            }
        }
    }
    KnownFile { known: out }
}

pub fn verif_root() -> String {
    std::env::var("VERIF_ROOT").unwrap_or_else(|_| "/verif".into())
}

/// run a whole check, write evidence, print VIOLATION / KNOWN-FINDING lines; returns the exit code
pub fn run_check(chk: Check, thorough: bool, seed: u64, extra_violation: Option<(String, Value)>) -> i32 {
    let t0 = Instant::now();
    let root = verif_root();
    let kf = load_known(&format!("{root}/known_findings.json"));
    let known_keys: Vec<String> = kf.known.iter().filter(|k| k.0 == chk.id).map(|k| k.1.clone()).collect();
    for (name, c) in &chk.controls {
        if let Err(e) = c() {
            machinery(&format!("{}: control '{}' failed: {}", chk.id, name, e));
        }
    }
    let cfg = Config {
        thorough,
        seed,
        threads: std::env::var("VERIF_THREADS").ok().and_then(|s| s.parse().ok()).unwrap_or(16),
        cap_s: std::env::var("VERIF_CAP_S").ok().and_then(|s| s.parse().ok()).unwrap_or(if thorough { 3000.0 } else { 600.0 }),
        known: known_keys,
        order_reps: std::env::var("VERIF_ORDER_REPS").ok().and_then(|s| s.parse().ok()).unwrap_or(if thorough { 320 } else { 128 }),
        crumb_dir: {
            let d = format!("{root}/evidence/parts/crumbs-{}", chk.id);
            let _ = std::fs::remove_dir_all(&d);
            std::fs::create_dir_all(&d).ok().map(|_| d)
        },
        ambient: std::env::var("VERIF_AMBIENT").map_or(true, |v| v != "0"),
        ambient_budget: ((if thorough { 1920.0 } else { 120.0 }) / chk.phases.len().max(1) as f64).min(if thorough { 640.0 } else { 48.0 }),
    };
    let mut reports = vec![];
    for ph in &chk.phases {
        let r = run_phase(ph, &cfg);
        let stop = r.violation.is_some();
        reports.push(r);
        if stop {
            break;
        }
    }
    // merge
    let mut tot = Stats::default();
    let mut classes: BTreeMap<String, u64> = BTreeMap::new();
    let mut phases_json = vec![];
    let mut bounds = Map::new();
    let mut exhaustive = reports.len() == chk.phases.len();
    let mut violation: Option<&Violation> = None;
    let mut known_lines: BTreeMap<&'static str, (u64, Value)> = BTreeMap::new();
    let mut empty_required = vec![];
    for (r, ph) in reports.iter().zip(chk.phases.iter()) {
        tot.states += r.stats.states;
        tot.transitions += r.stats.transitions;
        tot.executions += r.stats.executions;
        tot.nontrivial += r.stats.nontrivial;
        tot.evals += r.stats.evals;
        tot.max_ratio = tot.max_ratio.max(r.stats.max_ratio);
        for sv in &r.stats.samples {
            if tot.samples.len() < 8 {
                tot.samples.push(json!({"phase": r.name, "execution": sv}));
            }
        }
        for (i, (name, req)) in ph.classes.iter().enumerate() {
            *classes.entry(format!("{}:{}", r.name, name)).or_insert(0) += r.stats.classes[i];
            if *req && r.stats.classes[i] == 0 && r.violation.is_none() && r.exhaustive {
                empty_required.push(format!("{}:{}", r.name, name));
            }
        }
        exhaustive &= r.exhaustive;
        phases_json.push(json!({"phase": r.name, "units": r.units, "states": r.stats.states, "transitions": r.stats.transitions,
            "executions": r.stats.executions, "nontrivial": r.stats.nontrivial, "subject_evaluations": r.stats.evals,
            "exhaustive": r.exhaustive, "wall_s": (r.wall_s * 1000.0).round() / 1000.0,
            "call_order_pass": {"representative_executions": r.order_reps, "ordered_pairs_run": r.order_pairs},
            "ambient_pass": {"mode": r.ambient_mode, "passes": r.ambient_passes, "executions": r.ambient_executions}}));
        bounds.insert(r.name.to_string(), ph.bounds.clone());
        if violation.is_none() {
            violation = r.violation.as_ref();
        }
        for (k, (n, ex)) in &r.known_hits {
            let e = known_lines.entry(k).or_insert((0, ex.clone()));
            e.0 += n;
        }
    }
    let mut exit = 0;
    let mut nviol = 0;
    if let Some(v) = violation {
        nviol = 1;
        exit = 1;
        let rp = json!({
            "property": chk.id, "tier": if thorough {"thorough"} else {"quick"}, "seed": seed,
            "phase": v.phase, "unit": v.unit, "choices": v.choices,
            "preceded_by": v.preceded_by.as_ref().map(|p| json!({"unit": p.0, "choices": p.1})),
            "ambient": v.ambient.map(|a| json!({"activity": a.0, "held": a.1})),
            "what": v.fail.what, "detail": v.fail.detail,
            "replay_cmd": format!("{root}/bin/check {} replay <this file>", chk.id),
        });
        let key = hash_hex(&format!("{}{}{:?}{}", v.phase, v.unit, v.choices, v.fail.what));
        let path = format!("{root}/replays/{}-{}.json", chk.id, &key[..12]);
        let _ = std::fs::create_dir_all(format!("{root}/replays"));
        std::fs::write(&path, serde_json::to_string_pretty(&rp).unwrap()).unwrap_or_else(|e| machinery(&format!("cannot write replay: {e}")));
        match &v.preceded_by {
            None => println!("violation: {} [{} unit {} choices {:?}]", v.fail.what, v.phase, v.unit, v.choices),
            Some(p) => println!("violation: {} [{} unit {} choices {:?} after unit {} choices {:?}]", v.fail.what, v.phase, v.unit, v.choices, p.0, p.1),
        }
        println!("VIOLATION property={} replay={}", chk.id, path);
    }
    if let Some((what, detail)) = &extra_violation {
        if exit == 0 {
            nviol = 1;
            exit = 1;
            let rp = json!({"property": chk.id, "tier": if thorough {"thorough"} else {"quick"}, "phase": "external-engine", "what": what, "detail": detail});
            let key = hash_hex(&format!("{what}{detail}"));
            let path = format!("{root}/replays/{}-{}.json", chk.id, &key[..12]);
            let _ = std::fs::create_dir_all(format!("{root}/replays"));
            std::fs::write(&path, serde_json::to_string_pretty(&rp).unwrap()).unwrap();
            println!("violation: {what}");
            println!("VIOLATION property={} replay={}", chk.id, path);
        }
    }
    let mut known_json = vec![];
    for (k, (n, ex)) in &known_lines {
        let text = kf.known.iter().find(|e| e.0 == chk.id && &e.1 == k).map(|e| e.2.clone()).unwrap_or_default();
        println!("KNOWN-FINDING: property={} {} [{} failing executions, key {}]", chk.id, text, n, k);
        known_json.push(json!({"key": k, "what": text, "failing_executions": n, "first_example": ex}));
    }
    if exit == 0 && !empty_required.is_empty() {
        machinery(&format!("{}: required outcome classes never observed (vacuous exploration): {:?}", chk.id, empty_required));
    }
    if tot.samples.is_empty() {
        tot.samples.push(json!("no execution produced a sample description"));
    }
    let mut cov = Map::new();
    cov.insert("states".into(), json!(tot.states));
    cov.insert("transitions".into(), json!(tot.transitions));
    cov.insert("traces_validated_against_impl".into(), json!(tot.executions));
    cov.insert("evaluations".into(), json!(tot.executions));
    cov.insert("subject_evaluations".into(), json!(tot.evals));
    cov.insert("distinct_nontrivial".into(), json!(tot.nontrivial));
    if tot.max_ratio > 0.0 {
        cov.insert("max_error_over_tolerance".into(), json!(tot.max_ratio));
    }
    cov.insert("rule".into(), json!(chk.rule));
    cov.insert("samples".into(), Value::Array(tot.samples.clone()));
    cov.insert("exhaustive".into(), json!(exhaustive));
    cov.insert("bounds".into(), Value::Object(bounds));
    cov.insert("outcome_classes".into(), json!(classes));
    cov.insert("phases".into(), Value::Array(phases_json));
    cov.insert("call_order_pass".into(), json!({"what": "per phase, every ordered pair (i, j) of R representative executions (collected at power-of-two positions of every work item, evenly subsampled) is run as the two-call sequence i-then-j on one thread and j is judged by the same oracle: detects results that depend on the previous call (hidden thread-local / cached state)",
        "ordered_pairs_run": reports.iter().map(|r| r.order_pairs).sum::<u64>()}));
    cov.insert("ambient_pass".into(), json!({"what": "per phase, the exploration is repeated under every ambient activity (other use of the library's public API on the same thread), once with the activity's objects alive and once after they were dropped, each pass on fresh threads; mode full = the whole choice tree again, mode representatives = the representative executions (when the whole tree would exceed the pass budget). Detects results that depend on what else the thread has done or holds (thread-local, CPU-mode or global state)",
        "activities": ambient_alphabet().iter().map(|a| json!({"name": a.name, "what": a.what})).collect::<Vec<_>>(),
        "executions_run": reports.iter().map(|r| r.ambient_executions).sum::<u64>()}));
    cov.insert("known_findings".into(), Value::Array(known_json));
    cov.insert("controls_passed".into(), json!(chk.controls.iter().map(|c| c.0).collect::<Vec<_>>()));
    if !exhaustive && exit == 0 {
        cov.insert("cap_hit".into(), json!("a phase hit its wall-clock cap; counts above are what was fully explored"));
    }
    for (k, v) in chk.extra {
        cov.insert(k, v);
    }
    let ev = json!({
        "property_id": chk.id,
        "tier": if thorough {"thorough"} else {"quick"},
        "seed": seed,
        "level": "model_checking",
        "coverage": Value::Object(cov),
        "assumptions": chk.assumptions,
        "wall_s": (t0.elapsed().as_secs_f64() * 1000.0).round() / 1000.0,
        "violations": nviol,
    });
    let _ = std::fs::create_dir_all(format!("{root}/evidence"));
    let path = format!("{root}/evidence/{}.json", chk.id);
    std::fs::write(&path, serde_json::to_string_pretty(&ev).unwrap()).unwrap_or_else(|e| machinery(&format!("cannot write evidence: {e}")));
    println!(
        "{} {}: states={} transitions={} executions={} nontrivial={} subject_evals={} exhaustive={} wall={:.1}s exit={}",
        chk.id,
        if thorough { "thorough" } else { "quick" },
        tot.states,
        tot.transitions,
        tot.executions,
        tot.nontrivial,
        tot.evals,
        exhaustive,
        t0.elapsed().as_secs_f64(),
        exit
    );
    exit
}

/// replay a violation file: run that one execution twice and compare observations
pub fn replay(chk: &Check, file: &str) -> i32 {
    let s = std::fs::read_to_string(file).unwrap_or_else(|e| machinery(&format!("replay file: {e}")));
    let v: Value = serde_json::from_str(&s).unwrap_or_else(|e| machinery(&format!("replay file: {e}")));
    let phase = v["phase"].as_str().unwrap_or("");
    let Some(ph) = chk.phases.iter().find(|p| p.name == phase) else {
        machinery(&format!("replay: phase '{phase}' not in check {} (external-engine violations are replayed by their own binary)", chk.id));
    };
    let unit = v["unit"].as_u64().unwrap_or(0) as usize;
    let choices: Vec<u32> = v["choices"].as_array().map(|a| a.iter().map(|x| x.as_u64().unwrap() as u32).collect()).unwrap_or_default();
    let thorough = v["tier"].as_str() == Some("thorough");
    let seed = v["seed"].as_u64().unwrap_or(0);
    let pre: Option<(usize, Vec<u32>)> = v.get("preceded_by").filter(|p| !p.is_null()).map(|p| {
        (p["unit"].as_u64().unwrap_or(0) as usize, p["choices"].as_array().map(|a| a.iter().map(|x| x.as_u64().unwrap() as u32).collect()).unwrap_or_default())
    });
    let ambient: Option<(Ambient, bool)> = v.get("ambient").filter(|p| !p.is_null()).map(|p| {
        let name = p["activity"].as_str().unwrap_or("");
        let a = ambient_alphabet().iter().find(|a| a.name == name).unwrap_or_else(|| machinery(&format!("replay: unknown ambient activity '{name}'")));
        (*a, p["held"].as_bool().unwrap_or(true))
    });
    let once = || {
        // a thread of its own, as in the exploration (the ambient activity and the preceding call start from a clean thread)
        std::thread::scope(|s| {
            s.spawn(|| {
                let _keep = ambient.map(|(a, held)| {
                    let g = (a.enter)();
                    if held { Some(g) } else { drop(g); None }
                });
                if let Some((pu, pc)) = &pre {
                    let _ = run_single_q(ph, *pu, pc, thorough, seed);
                }
                run_single(ph, unit, &choices, thorough, seed)
            })
            .join()
            .unwrap_or_else(|_| machinery("replay: the execution thread panicked"))
        })
    };
    let (r1, t1) = once();
    let (r2, t2) = once();
    let d = |r: &Verdict| match r {
        Ok(()) => "held".to_string(),
        Err(f) => format!("{} {}", f.what, f.detail),
    };
    if pre.is_some() || ambient.is_some() {
        // a two-call sequence exposes hidden state, whose stale contents may differ from run to run: only the verdict must agree
        if r1.is_err() != r2.is_err() {
            machinery("replay: two runs of the same two-call sequence disagree on the verdict");
        }
    } else if d(&r1) != d(&r2) || t1 != t2 {
        machinery("replay: two runs of the same execution differ (nondeterminism)");
    }
    match r1 {
        Ok(()) => {
            println!("replay: property held on this execution (trail {:?})", t1);
            0
        }
        Err(f) => {
            println!("replay: {} {}", f.what, serde_json::to_string_pretty(&f.detail).unwrap());
            println!("VIOLATION property={} replay={}", chk.id, file);
            1
        }
    }
}
