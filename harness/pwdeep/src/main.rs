//! Unoptimised-build engine for C13 / C16: the checks of pwcheck are built with opt-level 2, where the compiler turns
//! recursion into loops and removes stack frames. This binary is built with the dev profile (opt-level 0, overflow checks
//! and debug assertions on) - the profile `cargo test` and `cargo run` use - and runs every public operation on inputs of
//! growing size, each (operation, size) item in a child process on a thread with the default 2 MiB stack: stack depth that
//! grows with the input (one frame per piece) kills the child, and that is reported with the item as the replay.
//!
//! pwdeep <C13|C16> <quick|thorough> <partfile>   exit 0 / 1
//! pwdeep <C13|C16> replay <file>
//! pwdeep item <op> <size>                          (child mode) exit 0 = returned, 3 = panicked, signal = crashed
use approx::{AbsDiffEq, RelativeEq};
use piecewise_polynomial::*;
use serde_json::{json, Value};
use std::process::Command;

const OPS: [(&str, bool, &str); 14] = [
    ("merge-add", true, "&f + &g on interleaved operands of n pieces each (IntOfLogPoly4 pieces)"),
    ("merge-sub", true, "&f - &g on interleaved operands of n pieces each"),
    ("merge-nested", true, "&f + &g with one operand of n pieces and one of a single piece, both orders"),
    ("evaluate", false, "Piecewise::evaluate at 64 arguments and evaluate_v over n arguments on n pieces"),
    ("evaluator", false, "PiecewiseEvaluator: forward sweep over n cells, backward sweep, jumps"),
    ("calculus", false, "derivative, integral, indefinite, integral_iter(_ref) on n Poly3 pieces; Log<Poly2> integral"),
    ("spline", false, "constrained_spline on n knots"),
    ("linear", false, "linear on n knots"),
    ("operators", false, "Piecewise *, *=, neg, translate on n pieces"),
    ("compare-clone", false, "abs_diff_eq, relative_eq, ==, clone, clone_from, Debug on n pieces"),
    ("serde", false, "serde_json to_string / from_str of n pieces"),
    ("arbitrary", false, "Arbitrary::arbitrary for Piecewise<Poly1> on bytes encoding n ends (descending)"),
    ("polyn", false, "PolyN of n coefficients: evaluate, translate, ==, clone, abs_diff_eq"),
    ("drop", false, "building and dropping a function of n pieces and a PolyN of n coefficients"),
];

fn q4(ends: impl Iterator<Item = f64>, m: f64) -> Piecewise<IntOfLogPoly4> {
    Piecewise { segments: ends.enumerate().map(|(i, e)| Segment { end: e, poly: IntOfLogPoly4 { k: m + (i % 7) as f64, coeffs: [0.5 * m, -0.25, 0.125, 0.01], u: 0.75 } }).collect() }
}
fn p3(n: usize) -> Piecewise<Poly3> {
    Piecewise { segments: (0..n).map(|i| Segment { end: 0.5 + i as f64 * 0.25, poly: Poly3([1.0 + (i % 5) as f64, -0.5, 0.25, 0.125]) }).collect() }
}

fn item(op: &str, n: usize) -> f64 {
    let mut acc = 0.0;
    match op {
        "merge-add" | "merge-sub" => {
            let f = q4((0..n).map(|i| i as f64), 1.0);
            let g = q4((0..n).map(|i| i as f64 + 0.5), 2.0);
            let r = if op == "merge-add" { &f + &g } else { &f - &g };
            assert!(r.segments.len() <= 2 * n && r.segments.len() >= n, "merged function has {} pieces", r.segments.len());
            acc += r.evaluate(n as f64 * 0.5);
        }
        "merge-nested" => {
            let f = q4((0..n).map(|i| i as f64), 1.0);
            let g = q4([n as f64 * 0.5].into_iter(), 2.0);
            let (a, b) = (&f + &g, &g - &f);
            assert!(a.segments.len() >= n && b.segments.len() >= n);
            acc += a.evaluate(1.5) + b.evaluate(1.5);
        }
        "evaluate" => {
            let f = p3(n);
            for k in 0..64 {
                acc += f.evaluate(k as f64 * n as f64 / 256.0);
            }
            acc += f.evaluate_v((0..n).map(|i| 0.4 + i as f64 * 0.25)).sum::<f64>();
        }
        "evaluator" => {
            let f = p3(n);
            let mut e = PiecewiseEvaluator::new(&f.segments);
            for i in 0..n {
                acc += e.evaluate(0.4 + i as f64 * 0.25);
            }
            for i in (0..n).rev().step_by(3) {
                acc += e.evaluate(0.4 + i as f64 * 0.25);
            }
            for k in 0..200 {
                acc += e.evaluate(if k % 2 == 0 { 0.3 } else { n as f64 });
            }
        }
        "calculus" => {
            let f = p3(n);
            let d = f.derivative();
            let i1 = f.integral(Knot { x: 0.0, y: 1.0 });
            let i2 = f.indefinite();
            let v: Vec<_> = Segment::integral_iter_ref(&f.segments, Knot { x: 0.0, y: 1.0 }).collect();
            let w: Vec<_> = Segment::integral_iter(f.segments.clone(), Knot { x: 0.0, y: 1.0 }).collect();
            assert!(d.segments.len() == n && i1.segments.len() == n && i2.segments.len() == n && v.len() == n && w.len() == n);
            let l: Piecewise<Log<Poly2>> = Piecewise { segments: (0..n).map(|i| Segment { end: 0.5 + i as f64 * 0.25, poly: Log(Poly2([1.0, -0.5, 0.25])) }).collect() };
            acc += l.integral(Knot { x: 1.0, y: 0.0 }).evaluate(3.0) + i1.evaluate(2.0);
        }
        "spline" | "linear" => {
            let ks: Vec<Knot> = (0..n).map(|i| Knot { x: i as f64 * 0.5, y: ((i * 7919) % 13) as f64 }).collect();
            if op == "spline" {
                let s = constrained_spline(&ks);
                assert!(s.segments.len() == n - 1);
                acc += s.evaluate(1.25);
            } else {
                let s = linear(&ks);
                assert!(s.segments.len() == n - 1);
                acc += s.evaluate(1.25);
            }
        }
        "operators" => {
            let f = p3(n);
            let mut g = f.clone() * 2.5;
            g *= -0.5;
            g.translate(3.0);
            let h = -g;
            assert!(h.segments.len() == n);
            acc += h.evaluate(2.0);
        }
        "compare-clone" => {
            let f = p3(n);
            let mut g = f.clone();
            g.clone_from(&f);
            let mut h = p3(3);
            h.clone_from(&f);
            assert!(f == g && h == f && f.abs_diff_eq(&g, 0.0) && f.relative_eq(&h, 0.0, 0.0));
            acc += format!("{:?}", f).len() as f64;
        }
        "serde" => {
            let f = p3(n);
            let s = serde_json::to_string(&f).expect("serialize");
            let b: Piecewise<Poly3> = serde_json::from_str(&s).expect("deserialize");
            assert!(b == f);
            acc += s.len() as f64;
        }
        "arbitrary" => {
            use arbitrary::{Arbitrary, Unstructured};
            let mut bytes = Vec::with_capacity(n * 9 + n * 16 + 8);
            for i in (0..n).rev() {
                bytes.push(1);
                bytes.extend((1.0 + i as f64).to_bits().to_le_bytes());
            }
            bytes.push(0);
            bytes.extend(std::iter::repeat(0x40u8).take(n * 16 + 7));
            let f = Piecewise::<Poly1>::arbitrary(&mut Unstructured::new(&bytes)).expect("generation");
            assert!(f.segments.len() == n && f.segments.windows(2).all(|w| w[0].end <= w[1].end));
            acc += f.evaluate(2.5);
        }
        "polyn" => {
            let mut p = PolyN((0..n).map(|i| 1.0 / (1.0 + i as f64)).collect());
            p.translate(2.0);
            let q = p.clone();
            assert!(p == q && p.abs_diff_eq(&q, 0.0));
            acc += p.evaluate(0.5) + p.evaluate(-1.0);
        }
        "drop" => {
            let f = p3(n);
            let p = PolyN(vec![1.0; n]);
            acc += f.segments.len() as f64 + p.0.len() as f64;
            drop(f);
            drop(p);
        }
        _ => panic!("unknown operation {op}"),
    }
    acc
}

fn run_child(op: &str, n: usize) -> Result<(), String> {
    let exe = std::env::current_exe().expect("current_exe");
    let out = Command::new(exe).args(["item", op, &n.to_string()]).output().map_err(|e| format!("cannot spawn child: {e}"));
    let out = match out {
        Ok(o) => o,
        Err(e) => {
            println!("MACHINERY-FAILURE: {e}");
            std::process::exit(2);
        }
    };
    if out.status.success() {
        return Ok(());
    }
    let err = String::from_utf8_lossy(&out.stderr);
    // (thread ids and addresses differ from run to run: digits are left out so that the same failure gives the same record)
    let last: String = err.lines().rev().take(3).collect::<Vec<_>>().into_iter().rev().collect::<Vec<_>>().join(" | ").chars().filter(|c| !c.is_ascii_digit()).collect();
    Err(match out.status.code() {
        Some(3) => format!("panicked: {last}"),
        Some(c) => format!("exited with status {c}: {last}"),
        None => format!("killed by a signal (stack overflow / abort): {last}"),
    })
}

fn main() {
    let args: Vec<String> = std::env::args().collect();
    if args.len() >= 4 && args[1] == "item" {
        let (op, n) = (args[2].clone(), args[3].parse::<usize>().expect("size"));
        // the default stack of a spawned thread (2 MiB), as in `cargo test`
        let h = std::thread::Builder::new().stack_size(2 << 20).spawn(move || std::panic::catch_unwind(|| item(&op, n))).expect("spawn");
        match h.join() {
            Ok(Ok(v)) => {
                std::hint::black_box(v);
                std::process::exit(0)
            }
            _ => std::process::exit(3),
        }
    }
    if args.len() < 4 {
        eprintln!("usage: pwdeep <C13|C16> <quick|thorough> <partfile> | pwdeep <ID> replay <file> | pwdeep item <op> <size>");
        std::process::exit(2);
    }
    let pid = args[1].as_str();
    if args[2] == "replay" {
        let v: Value = serde_json::from_str(&std::fs::read_to_string(&args[3]).expect("replay file")).expect("replay json");
        let d = &v["detail"];
        let (op, n) = (d["operation"].as_str().unwrap_or("").to_string(), d["size"].as_u64().unwrap_or(0) as usize);
        let (a, b) = (run_child(&op, n), run_child(&op, n));
        if a.is_ok() != b.is_ok() {
            println!("MACHINERY-FAILURE: replay: two runs of the same item disagree");
            std::process::exit(2);
        }
        match a {
            Ok(()) => {
                println!("replay: {op} on size {n} returned normally");
                std::process::exit(0)
            }
            Err(e) => {
                println!("replay: {op} on size {n}: {e}");
                println!("VIOLATION property={} replay={}", pid, args[3]);
                std::process::exit(1)
            }
        }
    }
    let thorough = args[2] == "thorough";
    let t0 = std::time::Instant::now();
    let sizes: Vec<usize> = if thorough { vec![3, 1000, 5000, 20000, 100000, 500000] } else { vec![3, 2000, 20000, 200000] };
    let ops: Vec<&(&str, bool, &str)> = OPS.iter().filter(|o| pid == "C16" || o.1).collect();
    let items: Vec<(&str, usize)> = ops.iter().flat_map(|o| sizes.iter().map(move |&n| (o.0, n))).collect();
    let next = std::sync::atomic::AtomicUsize::new(0);
    let bad: std::sync::Mutex<Option<(usize, String)>> = std::sync::Mutex::new(None);
    std::thread::scope(|s| {
        for _ in 0..8 {
            s.spawn(|| loop {
                let i = next.fetch_add(1, std::sync::atomic::Ordering::SeqCst);
                if i >= items.len() {
                    break;
                }
                if let Err(e) = run_child(items[i].0, items[i].1) {
                    let mut g = bad.lock().unwrap();
                    if g.as_ref().map_or(true, |(j, _)| i < *j) {
                        *g = Some((i, e));
                    }
                }
            });
        }
    });
    let violation = bad.into_inner().unwrap().map(|(i, e)| {
        json!({"what": format!("in an unoptimised build, {} on an input of size {} did not return: {}", items[i].0, items[i].1, e), "engine": "pwdeep (dev profile, one child process per item, 2 MiB stack)",
               "operation": items[i].0, "size": items[i].1})
    });
    let part = json!({
        "engine": "dev-profile build (opt-level 0, overflow checks, debug assertions) of the subject; every (operation, size) item in a child process on a 2 MiB stack",
        "states": items.len(), "transitions": items.len(), "traces_validated_against_impl": items.len(), "evaluations": items.len(), "distinct_nontrivial": items.iter().filter(|i| i.1 > 3).count(),
        "operations": ops.iter().map(|o| json!({"name": o.0, "what": o.2})).collect::<Vec<_>>(), "sizes": sizes, "exhaustive": violation.is_none(),
        "samples": [json!({"operation": items[0].0, "size": items[items.len() - 1].1})],
        "violation": violation, "wall_s": t0.elapsed().as_secs_f64(),
    });
    std::fs::write(&args[3], serde_json::to_string_pretty(&part).unwrap()).expect("write part file");
    println!("{} pwdeep: items={} wall={:.1}s violation={}", pid, items.len(), t0.elapsed().as_secs_f64(), part["violation"].is_object());
    std::process::exit(if part["violation"].is_object() { 1 } else { 0 });
}
